"""Compiler statement tree (teaal.hifiber objects) -> the same JSON shape hfir.py produces from text.  Prototype (C09)."""
import json
from teaal.hifiber import *

OPS = {OAdd: "+", OAnd: "&", ODiv: "/", OEqEq: "==", OFDiv: "//", OIn: "in", OLt: "<", OLtLt: "<<", OMod: "%", OMul: "*",
       ONotIn: "notin", OOr: "|", OSub: "-"}
CMPS = {"==", "<", "in", "notin"}


def E(x):
    if isinstance(x, EVar):
        if x.name == "None":
            return {"e": "none"}
        return {"e": "name", "id": x.name}
    if isinstance(x, EInt):
        return {"e": "num", "n": x.int, "d": 1}
    if isinstance(x, EFloat):
        if x.float == float("inf"):
            return {"e": "call", "fn": {"e": "name", "id": "float"}, "args": [{"e": "str", "s": "inf"}], "kw": []}
        return {"e": "num", "n": int(x.float), "d": 1}
    if isinstance(x, EString):
        return {"e": "str", "s": x.string}
    if isinstance(x, EBool):
        return {"e": "bool", "b": x.bool}
    if isinstance(x, EParens):
        return {"e": "paren", "x": E(x.expr)}
    if isinstance(x, EBinOp):
        op = OPS[type(x.op)]
        return {"e": "cmp" if op in CMPS else "bin", "op": op, "l": E(x.expr1), "r": E(x.expr2)}
    if isinstance(x, ETuple):
        return {"e": "tuple", "elts": [E(y) for y in x.elems]}
    if isinstance(x, EList):
        return {"e": "list", "elts": [E(y) for y in x.list]}
    if isinstance(x, EDict):
        return {"e": "dict", "keys": [E(k) for k in x.dict.keys()], "vals": [E(v) for v in x.dict.values()]}
    if isinstance(x, EAccess):
        return {"e": "index", "obj": E(x.obj), "key": E(x.ind)}
    if isinstance(x, EField):
        return {"e": "attr", "obj": {"e": "name", "id": x.obj}, "name": x.field}
    if isinstance(x, ELambda):
        return {"e": "lambda", "params": list(x.args), "body": E(x.body)}
    if isinstance(x, (EFunc, EMethod)):
        args = [E(a.expr) for a in x.args if isinstance(a, AJust)]
        kw = [{"k": a.name, "v": E(a.expr)} for a in x.args if isinstance(a, AParam)]
        fn = {"e": "name", "id": x.name} if isinstance(x, EFunc) else {"e": "attr", "obj": E(x.obj), "name": x.name}
        return {"e": "call", "fn": fn, "args": args, "kw": kw}
    if isinstance(x, EComp):
        raise ValueError("EComp")
    raise ValueError(type(x).__name__)


def A(x):
    if isinstance(x, AVar):
        return {"e": "name", "id": x.name}
    if isinstance(x, AAccess):
        return {"e": "index", "obj": E(x.obj), "key": E(x.ind)}
    if isinstance(x, AField):
        return {"e": "attr", "obj": {"e": "name", "id": x.obj}, "name": x.field}
    raise ValueError(type(x).__name__)


def P(x):
    if isinstance(x, PVar):
        return {"p": "name", "id": x.var}
    return {"p": "tuple", "elts": [P(y) for y in x.payloads]}


def flat(stmt, code):
    if isinstance(stmt, SBlock):
        for s in stmt.stmts:
            flat(s, code)
    elif isinstance(stmt, SAssign):
        t = A(stmt.assn)
        if t["e"] == "name":
            code.append({"op": "assign", "dst": t["id"], "e": E(stmt.expr)})
        else:
            code.append({"op": "setitem", "obj": t["obj"], "key": t["key"], "e": E(stmt.expr)})
    elif isinstance(stmt, SIAssign):
        code.append({"op": "aug", "dst": A(stmt.assn), "bop": OPS[type(stmt.op)], "e": E(stmt.expr)})
    elif isinstance(stmt, SExpr):
        code.append({"op": "expr", "e": E(stmt.expr)})
    elif isinstance(stmt, SFor):
        i = len(code)
        code.append(None)
        flat(stmt.stmt, code)
        code.append({"op": "endfor", "start": i + 2})
        code[i] = {"op": "for", "tgt": P(stmt.payload), "it": E(stmt.expr), "end": len(code)}
    elif isinstance(stmt, SIf):
        if stmt.elifs:
            raise ValueError("elif")
        i = len(code)
        code.append(None)
        flat(stmt.if_[1], code)
        j = len(code)
        code.append(None)
        if stmt.else_ is not None:
            flat(stmt.else_, code)
        code[i] = {"op": "if", "c": E(stmt.if_[0]), "else": j + 2}
        code[j] = {"op": "jump", "to": len(code) + 1}
    else:
        raise ValueError(type(stmt).__name__)


def convert(hifiber_obj):
    code = []
    flat(hifiber_obj.hifiber, code)
    code.append({"op": "done"})
    return code
