"""Writes /verif/MANIFEST.json from the table below (run: /venv/bin/python harness/manifest_gen.py)."""
import json
import os

ROOT = os.path.dirname(os.path.dirname(os.path.abspath(__file__)))
EXEC_NOTE = ("Trusted: TLC; CPython's ast; the syntactic text->HF-IR converter (harness/hfir.py); the reference reading of the "
             "HiFiber API (assumptions A1-A10, DESIGN 7.2, calibrated on the 19 golden programs and the pinned partitioning texts); "
             "bounded extents and input space; library details that are not certain are variants and only violations under all variants are reported.")
CHECKS = {
    "C01": ("HFMachine.tla run by TLC on every emitted program x bounded inputs, judged against EinsumSem.tla (OutputCorrect, OutputRestored, no run-time error); "
            "specifications: 19 golden + fixed core + seeded family of plain Einsums with loop/rank orders", "5 C01", EXEC_NOTE),
    "C02": ("same machine; shape-partitioning family (1-3 levels, uniform/nway, literal/symbolic, non-dividing and oversized sizes, arbitrary level loop orders); "
            "output must equal the unpartitioned Einsum's oracle under its declared name, rank order and coordinates", "5 C02", EXEC_NOTE),
    "C03": ("same machine; occupancy stacks with every leader, flatten tuples (+ occupancy of the flattened rank), accelerator specifications with the architecture stripped; "
            "nearly dense inputs included; splitNonUniform's unspecified case is a variant", "5 C03", EXEC_NOTE),
    "C04": ("same machine over exact rationals; affine accesses (convolution/stride/dilation/subsampling) x loop orders x partitioned output rank with follower; "
            "clauses OutputCorrect and WithinExtent", "5 C04", EXEC_NOTE),
    "C05": ("same machine on cascades of 2-4 Einsums against the chained oracle (EinsumSem!Cascade) with NamesTruthful; per-Einsum segment independence and the shared-tensor protocol are "
            "trace-validated (SessionTrace / TensorIRTrace) once the hook exists", "5 C05", EXEC_NOTE),
    "C06": ("CPython's parser for 'is Python' + Scope.tla: all-paths definite assignment and loop-variable scoping explored exhaustively by TLC for every emitted program of all families "
            "in plain, spacetime and metrics mode; user-supplied names derived from the specification alone", "3.5, 5 C06",
            "Trusted: TLC, CPython ast, the syntactic converter; loops abstracted to zero/one iteration (binding is monotone)."),
    "C07": ("HFMachine invariants NamesTruthful, InputsUnchanged, OutputRestored and the 'update writes into an input' guard on the union of the C01-C05 families", "5 C07", EXEC_NOTE),
    "C11": ("every specification compiled with and without architecture/bindings/format; both programs run on HFMachine (inert Metrics/Traffic/Format/Compute/Intersector stand-ins) on the same inputs and must equal the oracle", "5 C11", EXEC_NOTE),
    "C12": ("MetricsProtocol.tla monitor advanced by HFMachine (concrete runs) and by Scope.tla (every path) over metrics-mode programs", "3.6, 5 C12",
            "Trusted: TLC, the converter; the monitor reads only literal arguments of the emitted calls. 'Fed inside the loops' is read as: fed during collection, not before the loop nest starts (the compiler feeds at the close of the intersected rank's loop)."),
    "C14": ("RollUp.tla evaluated on the metrics dictionary built by the emitted dump on HFMachine with prime-valued stand-ins varying per statement and input; component facts (kind, rate, instances) from an independent reader of the architecture YAML", "3.6, 5 C14",
            EXEC_NOTE + " Instance count = the count of the level that holds the component."),
    "C16": ("HFMachine observers (activities vs updates in lock-step, point arity, stamps unique per canvas) + oracle equality of the programs with and without spacetime", "5 C16", EXEC_NOTE),
}
PENDING = {}


def main():
    props = [json.loads(l) for l in open(os.path.join(ROOT, "properties.jsonl"))]
    checks = []
    for p in props:
        pid = p["id"]
        if pid not in CHECKS:
            continue
        text, ref, note = CHECKS[pid]
        checks.append({
            "property_id": pid,
            "quick_cmd": "./check %s --tier quick" % pid,
            "thorough_cmd": "./check %s --tier thorough" % pid,
            "evidence_file": "/verif/evidence/%s.json" % pid,
            "replay_cmd_template": "./check %s --replay {path}" % pid,
            "engine": "tlc",
            "level_claimed": {"category": "model_checking", "text": text, "design_ref": "DESIGN.md section " + ref},
            "level_note": note,
            "technique": "explicit TLA+ specification checked by TLC, bound to the implementation by replaying the compiler's emitted programs / recorded traces into the specification and specification behaviours into the compiler",
        })
    na = [{"property_id": p["id"], "reason": PENDING.get(p["id"], "check not yet built in this round (TLA+ decision procedure designed in DESIGN.md section 5); not claimed until it runs")}
          for p in props if p["id"] not in CHECKS]
    man = {
        "version": 1,
        "setup_cmd": "./check setup",
        "hooks": {"guard": "TEAAL_VERIF", "enable": "TEAAL_VERIF=1 (plus TEAAL_VERIF_TRACE=<file>) in the environment of the compiling process; no rebuild needed (pure Python, imported from /repo)",
                  "baseline_off_cmd": "cd /repo && env -u TEAAL_VERIF /venv/bin/python -m pytest -ra -q -p no:cacheprovider --timeout=900 --continue-on-collection-errors",
                  "source_commits": [], "add_only": True},
        "engines": [{"name": "tlc", "path": "/usr/local/bin/tlc", "serves_properties": sorted(CHECKS), "kind_free_text": "TLC 1.8 explicit-state model checker over the TLA+ modules in /verif/spec"}],
        "checks": checks,
        "not_applicable": na,
        "notes": "Single entry point ./check <id> --tier quick|thorough [--replay f]; VERIF_SEED seeds every sample; known findings in known_findings.json.",
    }
    json.dump(man, open(os.path.join(ROOT, "MANIFEST.json"), "w"), indent=1)
    print("MANIFEST.json:", len(checks), "checks,", len(na), "not claimed")


if __name__ == "__main__":
    main()
