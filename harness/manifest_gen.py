"""Writes /verif/MANIFEST.json from the table below (run: /venv/bin/python harness/manifest_gen.py)."""
import json
import os

ROOT = os.path.dirname(os.path.dirname(os.path.abspath(__file__)))
EXEC_NOTE = ("Trusted: TLC; CPython's ast; the syntactic text->HF-IR converter (harness/hfir.py); the reference reading of the "
             "HiFiber API (assumptions A1-A10, DESIGN 7.2; double precision = CPython floats, calibrated on the 19 golden programs and the pinned partitioning texts); "
             "bounded extents and input space; library details that are not certain are variants and only violations under all variants are reported.")
CHECKS = {
    "C01": ("HFMachine.tla run by TLC on every emitted program x bounded inputs, judged against EinsumSem.tla (OutputCorrect, OutputRestored, no run-time error); "
            "specifications: 19 golden + fixed core + seeded family of plain Einsums with loop/rank orders", "5 C01", EXEC_NOTE),
    "C02": ("same machine; shape-partitioning family (1-3 levels, uniform/nway, literal/symbolic, non-dividing and oversized sizes, arbitrary level loop orders); "
            "output must equal the unpartitioned Einsum's oracle under its declared name, rank order and coordinates", "5 C02", EXEC_NOTE),
    "C03": ("same machine; occupancy stacks with every leader, flatten tuples (+ occupancy of the flattened rank), accelerator specifications with the architecture stripped; "
            "nearly dense inputs included; splitNonUniform's unspecified case is a variant", "5 C03", EXEC_NOTE),
    "C04": ("same machine over exact rationals plus IEEE facts (the points where a projection lambda misses an integer in double precision, computed by CPython and attached to the lambda); "
            "affine accesses (convolution/stride/dilation/subsampling, negative coefficients, masked convolutions, followers through fractional coefficients) x loop orders x partitioned output rank with follower; clauses OutputCorrect and WithinExtent", "5 C04", EXEC_NOTE),
    "C05": ("same machine on cascades of 2-4 Einsums against the chained oracle (EinsumSem!Cascade) with NamesTruthful; per-Einsum segment independence and the shared-tensor protocol are "
            "trace-validated (TensorIRTrace.tla on hook events, Independence.tla on the statements of each Einsum compiled after every prefix)", "5 C05", EXEC_NOTE),
    "C06": ("CPython's parser for 'is Python' + Scope.tla: all-paths definite assignment and loop-variable scoping explored exhaustively by TLC for every emitted program of all families "
            "in plain, spacetime and metrics mode; user-supplied names derived from the specification alone", "3.5, 5 C06",
            "Trusted: TLC, CPython ast, the syntactic converter; loops abstracted to zero/one iteration (binding is monotone)."),
    "C07": ("HFMachine invariants NamesTruthful, InputsUnchanged, OutputRestored and run-time errors on the union of the C01-C05 families; partitioning cores compiled in fresh interpreters under several hash seeds and injected orders (every distinct text is run)", "5 C07", EXEC_NOTE),
    "C11": ("every specification compiled with and without architecture/bindings/format; both programs run on HFMachine (inert Metrics/Traffic/Format/Compute/Intersector stand-ins) on the same inputs and must equal the oracle", "5 C11", EXEC_NOTE),
    "C12": ("MetricsProtocol.tla monitor advanced by HFMachine (concrete runs) and by Scope.tla (every path) over metrics-mode programs", "3.6, 5 C12",
            "Trusted: TLC, the converter; the monitor reads only literal arguments of the emitted calls. 'Fed inside the loops' is read as: fed during collection, not before the loop nest starts (the compiler feeds at the close of the intersected rank's loop)."),
    "C14": ("RollUp.tla evaluated on the metrics dictionary built by the emitted dump on HFMachine with prime-valued stand-ins varying per statement and input; component facts (kind, rate, instances) from an independent reader of the architecture YAML", "3.6, 5 C14",
            EXEC_NOTE + " Instance count = the count of the level that holds the component."),
    "C16": ("HFMachine observers (activities vs updates in lock-step, point arity, stamps unique per canvas) + oracle equality of the programs with and without spacetime + every stamped specification must still compile when the mapping is added", "5 C16", EXEC_NOTE),
    "C08": ("each specification compiled in fresh interpreters under N string-hash seeds and under injected random linear extensions of every flow graph (env-guarded hook); every distinct text is judged by Scope.tla and run on HFMachine.tla against the same oracle on the same inputs; determinism in one process by a two-compile history validated by SessionTrace.tla", "5 C08",
            EXEC_NOTE + " 'All seeds' is a sample of seeds plus a superset of sort tie-breaks."),
    "C09": ("TreeEq.tla compares, statement by statement, the tree the translator built with CPython's parse of the printed text (Printer!Canon), requires Printer!Faithful, on every compilation of the corpora and on affine expressions through CoordAccess.build_expr; PrinterGen.tla enumerates all operator trees of depth <= 2 which are printed by the real classes and re-parsed, binding the TLA+ precedence table to CPython and the printer", "3.10, 5 C09",
            "Trusted: TLC, CPython ast, the two structural converters (harness/treeir.py, harness/hfir.py)."),
    "C10": ("Hoist.tla: transcription of FlowGraph.__sort (any linear extension) and __hoist + order invariants, on flow graphs exported through the public IR API; conformance of the real __hoist on its own orders, on injected random linear extensions and on linear extensions chosen by TLC; every text emitted under those orders is judged by Scope.tla (a name read before it is bound = a dependence missing from the graph) and a specification that compiles under one admissible order and fails under another is reported", "3.8, 5 C10",
            "Trusted: TLC; dependences are the edges of the flow graph the compiler builds; the env-guarded hook only logs / substitutes the pre-hoist order."),
    "C13": ("Fusion.tla model-checked exhaustively (OrderedPartition, NonEmptyBlocks, BlockLegal, AppendOnly); its behaviours (components of kinds compute / sequencer / intersector) are stepped through real Program/Hardware/Fusion objects and the recorded traces validated by FusionTrace.tla; metrics[\"blocks\"] literals of whole compilations judged by the invariants", "3.7, 5 C13",
            "Trusted: TLC; descriptors (config, loop order, space list, bound components) are read from the generating history, not from the compiler."),
    "C15": ("Session.tla (NoMutation, Repeatable) model-checked; its parse/compile histories replayed with the real parsers and HiFiber(...), a dozen histories per interpreter; each interpreter's whole event sequence (deep digests of the five parsed objects and of the text) is one trace, started by reference events from fresh interpreters, validated by SessionTrace.tla", "3.9, 5 C15",
            "Trusted: TLC; 'observably equal' = equal deep structural rendering of the objects' attributes."),
    "C17": ("Syntax.tla enumerates the bounded language of the five grammars (adversarial names, spacing styles) with the structure each sentence was rendered from, and near-misses; real parser classes + independent extractor; SyntaxTrace.tla compares", "3.10, 5 C17",
            "Trusted: TLC; the extractor is a plain walk of the lark tree; near-misses carry a written argument for non-membership (decimal numbers are not used: lark's NUMBER accepts them)."),
    "C18": ("Legality.tla applies each of the 15 stated rules at every site of its base specifications; real parsers + HiFiber(...); LegalityTrace.tla: Compiled => Legal and the rejection is a ValueError; legal bases/neighbours guard against vacuity", "5 C18",
            "Trusted: TLC; the renderer of abstract specifications to YAML."),
    "C19": ("SpecSpace.tla enumerates/samples Einsums x partitionings (shape / occupancy stacks, flattening) and computes DefaultLoopOrder / declared rank order; compiled with sections omitted vs written out; Defaults.tla requires identical outcomes", "3.10, 5 C19",
            "Trusted: TLC; the renderer; outcomes compared as digests of the emitted text."),

}
PENDING = {}


def main():
    props = [json.loads(l) for l in open(os.path.join(ROOT, "properties.jsonl"))]
    checks = []
    for p in props:
        pid = p["id"]
        if pid not in CHECKS:
            continue
        text, ref, note = CHECKS[pid]
        checks.append({
            "property_id": pid,
            "quick_cmd": "./check %s --tier quick" % pid,
            "thorough_cmd": "./check %s --tier thorough" % pid,
            "evidence_file": "/verif/evidence/%s.json" % pid,
            "replay_cmd_template": "./check %s --replay {path}" % pid,
            "engine": "tlc",
            "level_claimed": {"category": "model_checking", "text": text, "design_ref": "DESIGN.md section " + ref},
            "level_note": note,
            "technique": "explicit TLA+ specification checked by TLC, bound to the implementation by replaying the compiler's emitted programs / recorded traces into the specification and specification behaviours into the compiler",
        })
    na = [{"property_id": p["id"], "reason": PENDING.get(p["id"], "check not yet built in this round (TLA+ decision procedure designed in DESIGN.md section 5); not claimed until it runs")}
          for p in props if p["id"] not in CHECKS]
    man = {
        "version": 1,
        "setup_cmd": "./check setup",
        "hooks": {"guard": "TEAAL_VERIF", "enable": "TEAAL_VERIF=1 (plus TEAAL_VERIF_TRACE=<file>) in the environment of the compiling process; no rebuild needed (pure Python, imported from /repo)",
                  "baseline_off_cmd": "cd /repo && env -u TEAAL_VERIF /venv/bin/python -m pytest -ra -q -p no:cacheprovider --timeout=900 --continue-on-collection-errors",
                  "source_commits": ["879aa90"], "add_only": True},
        "engines": [{"name": "tlc", "path": "/usr/local/bin/tlc", "serves_properties": sorted(CHECKS), "kind_free_text": "TLC 1.8 explicit-state model checker over the TLA+ modules in /verif/spec"}],
        "checks": checks,
        "not_applicable": na,
        "notes": "Single entry point ./check <id> --tier quick|thorough [--replay f]; VERIF_SEED seeds every sample; known findings in known_findings.json.",
    }
    json.dump(man, open(os.path.join(ROOT, "MANIFEST.json"), "w"), indent=1)
    print("MANIFEST.json:", len(checks), "checks,", len(na), "not claimed")


if __name__ == "__main__":
    main()
