"""C09 pipeline: compiler statement trees (treeir) and CPython parses of the emitted text (hfir) -> spec/TreeEq.tla."""
import ast
import json
import os

import hfir
import tlc
import treeir
from common import MachineryError

CFG = "SPECIFICATION Spec\nINVARIANT Verdict\nCHECK_DEADLOCK FALSE\n"
GEN_CFG = "CONSTANTS Depth = %d\n          OpsUsed = {%s}\nSPECIFICATION Spec\nINVARIANT Emit\nCHECK_DEADLOCK FALSE\n"
ALL_OPS = ["+", "&", "/", "==", "//", "in", "<", "<<", "%", "*", "notin", "|", "-"]
QUICK_OPS = ["==", "in", "|", "<<", "+", "-", "*", "/"]


def build_expr(t):
    """HF-IR tree (from PrinterGen) -> real teaal.hifiber expression object."""
    from teaal.hifiber import (EBinOp, EInt, EParens, EVar, OAdd, OAnd, ODiv, OEqEq, OFDiv, OIn, OLt, OLtLt, OMod, OMul, ONotIn, OOr, OSub)
    ops = {"+": OAdd, "&": OAnd, "/": ODiv, "==": OEqEq, "//": OFDiv, "in": OIn, "<": OLt, "<<": OLtLt, "%": OMod, "*": OMul, "notin": ONotIn, "|": OOr, "-": OSub}
    if t["e"] == "name":
        return EVar(t["id"])
    if t["e"] == "num":
        return EInt(t["n"])
    if t["e"] == "paren":
        return EParens(build_expr(t["x"]))
    return EBinOp(build_expr(t["l"]), ops[t["op"]](), build_expr(t["r"]))


def calibration_batch(wd, depth, ops, report):
    lines, stats = tlc.run("PrinterGen", GEN_CFG % (depth, ", ".join('"%s"' % o for o in ops)), wd, workers=1, tag="pgen", timeout=900, heap="4g")
    report.add_tlc(stats, "PrinterGen: all operator trees of depth <= %d over %d operators" % (depth, len(ops)))
    if stats["errors"]:
        raise MachineryError("PrinterGen failed: " + stats["errors"][0][:300])
    progs, bad = [], []
    trees, texts = [], []
    for s in tlc.printed(lines, "TREEGEN|"):
        t = json.loads(s[8:])
        obj = build_expr(t)
        src = obj.gen()
        try:
            parsed = hfir.E(ast.parse(src, mode="eval").body)
        except hfir.Unsupported:
            parsed = {"e": "chained-comparison"}           # a comparison chain: certainly not the tree that was built
        except SyntaxError:
            parsed = {"e": "syntax-error"}
        trees.append({"op": "expr", "e": treeir.E(obj)})
        texts.append({"op": "expr", "e": parsed})
    # pack ~500 expressions per batch entry (one TLC state per expression)
    for i in range(0, len(trees), 500):
        progs.append({"kind": "calib", "tree": trees[i:i + 500], "text": texts[i:i + 500]})
    return progs, len(trees)


def run_treeeq(progs, wd, report, what="treeeq", shards=2, timeout=1500):
    res = tlc.run_sharded("TreeEq", CFG, wd, progs, "TREE_BATCH", lambda ps: {"progs": ps}, tag=what, timeout=timeout, shards=shards)
    out = []
    for idx, lines, stats in res:
        report.add_tlc(stats, what)
        if stats["errors"] or stats["timeout"]:
            raise MachineryError("TreeEq.tla failed: %s" % (stats["errors"] or ["timeout"])[0][:400])
        for kind in ("TREE|", "CALIB|"):
            for s in tlc.printed(lines, kind):
                _, pid, k, why = s.split("|", 3)
                out.append((kind[:-1], idx[int(pid) - 1], int(k), why))
    return out
