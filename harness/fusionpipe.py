"""C13 pipeline: Fusion.tla histories -> real Program/Hardware/Fusion objects -> recorded traces -> FusionTrace.tla."""
import json
import os
import re
from concurrent.futures import ProcessPoolExecutor

import tlc
from common import MachineryError, ncores

LOOP = ["M", "K", "N"]
SPACES = [[], ["N"], ["K"], ["M"], ["N", "M"]]
COMPS = ["F0", "F1", "S0", "I0"]        # functional components of every configuration: two compute units, a sequencer, an intersector
MC_COMPS = {"quick": ["F0", "S0"], "thorough": ["F0", "F1", "S0"], "wide": ["F0", "S0", "I0"]}


def comp_arch(f):
    if f.startswith("S"):
        return "    - name: %s\n      class: Sequencer\n      attributes:\n        num_ranks: 3\n" % f
    if f.startswith("I"):
        return "    - name: %s\n      class: Intersector\n      attributes:\n        type: two-finger\n" % f
    return "    - name: %s\n      class: compute\n      attributes:\n        type: mul\n" % f


def comp_bind(f, d):
    if f.startswith("S"):
        return "  - component: %s\n    bindings:\n%s" % (f, "".join("    - rank: %s\n" % r for r in d["loop"]))
    if f.startswith("I"):
        return "  - component: %s\n    bindings:\n    - rank: %s\n" % (f, d["loop"][-1])
    return "  - component: %s\n    bindings:\n    - op: mul\n" % f

CFGS = ["cA", "cB"]

MC_CFG = """CONSTANTS Configs = {"cA", "cB"}
          Loops <- MCLoops
          Spaces <- MCSpaces
          Comps = {%s}
          MaxLen = %d
SPECIFICATION Spec
INVARIANT OrderedPartition
INVARIANT NonEmptyBlocks
INVARIANT BlockLegal
%s
CHECK_DEADLOCK FALSE
"""
TRACE_CFG = "SPECIFICATION TSpec\nINVARIANT Verdict\nINVARIANT Accepted\nCHECK_DEADLOCK FALSE\n"


# Einsum names in program order: deliberately NOT in ascending string order (a block must list its Einsums in program order)
ENAMES = ["Tq", "Tc", "Tx", "Ta", "Tm", "Tb", "Tz", "Td"]


def yaml_of(hist):
    """A cascade T0 <- A, T1 <- T0, ... whose i-th Einsum has the i-th descriptor (config, space list, bound components)."""
    n = len(hist)
    N = ENAMES
    decl = "    A: [K, M, N]\n" + "".join("    %s: [K, M, N]\n" % N[i] for i in range(n))
    exprs = "".join("    - %s[k, m, n] = %s[k, m, n]\n" % (N[i], "A" if i == 0 else N[i - 1]) for i in range(n))
    lo = "".join("    %s: [%s]\n" % (N[i], ", ".join(d["loop"])) for i, d in enumerate(hist))
    st = "".join("    %s:\n      space: [%s]\n      time: [%s]\n" % (N[i], ", ".join(d["space"]), ", ".join(r for r in d["loop"] if r not in d["space"]))
                 for i, d in enumerate(hist))
    arch = "".join("  %s:\n  - name: System\n    attributes:\n      clock_frequency: 3\n    local:\n" % c +
                   "".join(comp_arch(f) for f in COMPS) for c in CFGS)
    binds = ""
    for i, d in enumerate(hist):
        binds += "  %s:\n  - config: %s\n    prefix: tmp/%s\n" % (ENAMES[i], d["cfg"], ENAMES[i])
        binds += "".join(comp_bind(f, d) for f in d["comps"])
    return "einsum:\n  declaration:\n%s  expressions:\n%smapping:\n  loop-order:\n%s  spacetime:\n%sarchitecture:\n%sbindings:\n%s" % (decl, exprs, lo, st, arch, binds)


def replay(hist):
    """Step a history through the real objects, recording get_blocks() after every add_einsum."""
    from teaal.ir.fusion import Fusion
    from teaal.ir.hardware import Hardware
    from teaal.ir.program import Program
    from teaal.parse import Einsum, Mapping, Architecture, Bindings
    y = yaml_of(hist)
    program = Program(Einsum.from_str(y), Mapping.from_str(y))
    program.add_einsum(0)
    hardware = Hardware(Architecture.from_str(y), Bindings.from_str(y), program)
    fusion = Fusion(hardware)
    names = ENAMES[:len(hist)]
    evs = []
    for i, d in enumerate(hist):
        program.reset()
        program.add_einsum(i)
        fusion.add_einsum(program)
        evs.append(dict(d, blocks=[[names.index(e) + 1 for e in b] for b in fusion.get_blocks()]))
    return {"kind": "steps", "events": evs}


def replay_full(hist):
    """Whole compilation in metrics mode; the blocks literal of the emitted dump."""
    from teaal.parse import Einsum, Mapping, Architecture, Bindings, Format
    from teaal.trans.hifiber import HiFiber
    y = yaml_of(hist)
    text = str(HiFiber(Einsum.from_str(y), Mapping.from_str(y), Architecture.from_str(y), Bindings.from_str(y), Format.from_str(y)))
    m = re.search(r'^metrics\["blocks"\] = (\[.*\])$', text, re.M)
    names = ENAMES[:len(hist)]
    blocks = [[names.index(e) + 1 for e in b] for b in json.loads(m.group(1))]
    return {"kind": "final", "events": [dict(d, blocks=[]) for d in hist], "blocks": blocks}


def _safe(fn, hist):
    try:
        return fn(hist)
    except Exception as ex:          # a history the compiler rejects is not judged
        return {"kind": "rejected", "why": "%s: %s" % (type(ex).__name__, str(ex)[:100])}


def replay_many(hists, full=False):
    fn = replay_full if full else replay
    with ProcessPoolExecutor(max(2, ncores() - 2)) as ex:
        return list(ex.map(_safe, [fn] * len(hists), hists, chunksize=16))


def histories_from_tlc(wd, length, simulate=None, seed=0, comps="quick"):
    """Histories are Fusion.tla behaviours: exhaustive BFS (small length) or -simulate."""
    cfg = MC_CFG % (", ".join('"%s"' % c for c in MC_COMPS[comps]), length, "INVARIANT EmitHist")
    if simulate:
        lines, stats = tlc.run("MC_Fusion", cfg, wd, workers=1, simulate="num=%d" % simulate, depth=length + 1, seed=seed, tag="gen%d" % length, timeout=600)
    else:
        lines, stats = tlc.run("MC_Fusion", cfg, wd, workers=4, tag="gen%d" % length, timeout=900)
    if stats["errors"]:
        raise MachineryError("Fusion history generation failed: " + stats["errors"][0][:300])
    hs = {}
    for s in tlc.printed(lines, "HIST|"):
        h = json.loads(s[5:])
        h = [{"cfg": d["cfg"], "loop": list(d["loop"]), "space": list(d["space"]), "comps": sorted(d["comps"])} for d in h]
        hs[json.dumps(h)] = h
    return list(hs.values()), stats


def validate(traces, wd, report, what):
    bf = os.path.join(wd, "fusion_%s.json" % what)
    json.dump({"traces": traces}, open(bf, "w"))
    lines, stats = tlc.run("FusionTrace", TRACE_CFG, wd, env={"FUSION_TRACES": bf}, workers=8, tag=what, timeout=1200)
    report.add_tlc(stats, "trace validation " + what)
    if stats["errors"]:
        raise MachineryError("FusionTrace failed: " + stats["errors"][0][:300])
    rejected = {}
    for s in tlc.printed(lines, "FUSION|"):
        _, tid, l, why = s.split("|", 3)
        rejected.setdefault(int(tid), (int(l), why))
    accepted = {int(s.split("|")[1]) for s in tlc.printed(lines, "FUSIONOK|")}
    return rejected, accepted
