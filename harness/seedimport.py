"""Confirm a sub-agent's seeded change in its scratch worktree and file it under seeded/<name>/.
   /venv/bin/python harness/seedimport.py C06 C06-iter-num "what it needs to manifest"
Confirms: patch == worktree diff, the 632 pinned tests pass with the change, demo fails with / passes without."""
import json
import os
import shutil
import subprocess
import sys


def sh(cmd, **kw):
    return subprocess.run(cmd, shell=True, capture_output=True, text=True, **kw)


def main():
    prop, name, needs = sys.argv[1], sys.argv[2], sys.argv[3]
    base = os.environ.get("SEED_WT", "/tmp/wt")
    wt, out = "%s/%s" % (base, prop), "%s/%s-out" % (base, prop)
    dst = "/verif/seeded/%s" % name
    diff = sh("git -C %s diff" % wt).stdout
    if not diff.strip():
        print("no change in worktree")
        return 1
    env = "PYTHONPATH=%s" % wt
    t = sh("cd %s && %s timeout 1200 /venv/bin/python -m pytest -q -p no:cacheprovider -x -n 6 2>&1 | tail -1" % (wt, env)).stdout.strip()
    with_rc = sh("cd %s && %s /venv/bin/python %s/demo.py" % (wt, env, out)).returncode
    open("%s/%s-import.diff" % (base, prop), "w").write(diff)           # (git stash is shared by all worktrees: never use it here)
    sh("git -C %s apply -R %s/%s-import.diff" % (wt, base, prop))
    try:
        without_rc = sh("cd %s && %s /venv/bin/python %s/demo.py" % (wt, env, out)).returncode
    finally:
        sh("git -C %s apply %s/%s-import.diff" % (wt, base, prop))
    print("tests:", t, "| demo with change:", with_rc, "| without:", without_rc)
    ok = "632 passed" in t and with_rc != 0 and without_rc == 0
    if not ok:
        print("NOT CONFIRMED")
        return 1
    os.makedirs(dst, exist_ok=True)
    open(os.path.join(dst, "patch.diff"), "w").write(diff)
    shutil.copy(os.path.join(out, "demo.py"), os.path.join(dst, "demo.py"))
    if os.path.exists(os.path.join(out, "notes.md")):
        shutil.copy(os.path.join(out, "notes.md"), os.path.join(dst, "notes.md"))
    files = [l[6:] for l in diff.splitlines() if l.startswith("+++ b/")]
    meta = {"breaks_property": prop, "files": files, "needs_to_manifest": needs,
            "confirmed": {"pinned_tests_with_change": t, "demo_exit_with_change": with_rc, "demo_exit_without_change": without_rc,
                          "how": "scratch worktree %s of /repo HEAD; PYTHONPATH=<worktree> /venv/bin/python -m pytest ...; demo.py with the change and after git stash" % wt},
            "checks_run": {}, "caught_by": []}
    json.dump(meta, open(os.path.join(dst, "meta.json"), "w"), indent=1)
    print("filed under", dst)
    return 0


if __name__ == "__main__":
    sys.exit(main())
