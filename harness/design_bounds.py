"""Regenerates the table of section 11.4 of DESIGN.md from evidence/*.json (between the markers)."""
import json
import os

ROOT = os.path.dirname(os.path.dirname(os.path.abspath(__file__)))
BEGIN, END = "<!-- bounds-table-begin -->", "<!-- bounds-table-end -->"


def main():
    rows = []
    for i in range(1, 20):
        pid = "C%02d" % i
        p = os.path.join(ROOT, "evidence", pid + ".json")
        if not os.path.exists(p):
            continue
        e = json.load(open(p))
        c = e["coverage"]
        rows.append("| %s | %s | %s | %s | %s | %s | %s |" % (pid, e["tier"], c.get("programs") or c.get("evaluations"), c.get("distinct_nontrivial"), c.get("states"),
                                                        c.get("traces_validated_against_impl"), ", ".join("%s×%d" % kv for kv in sorted((c.get("known_findings_matched") or {}).items())) or "—"))
    table = (BEGIN + "\n(last quick run of each check on the committed tree, seed 0; regenerate with `harness/design_bounds.py`)\n\n"
             "| id | tier | programs / cases | distinct | TLC states | traces bound to the implementation | known findings re-derived |\n|---|---|---|---|---|---|---|\n" + "\n".join(rows) + "\n" + END)
    p = os.path.join(ROOT, "DESIGN.md")
    s = open(p).read()
    if BEGIN in s:
        s = s[:s.index(BEGIN)] + table + s[s.index(END) + len(END):]
    else:
        a = s.index("### 11.5 Open work")
        s = s[:a] + table + "\n\n" + s[a:]
    open(p, "w").write(s)
    print(len(rows), "rows")


if __name__ == "__main__":
    main()
