"""Running TLC and reading what it said.  Verdicts are lines PrintT'ed by the specifications."""
import json
import os
import re
import subprocess
import time
from concurrent.futures import ThreadPoolExecutor

from common import SPEC, MachineryError, ncores

JAVA_OPTS = ["-XX:+UseParallelGC", "-Xss64m"]
CP = "/opt/veriftools/tla/tla2tools.jar:/opt/veriftools/tla/CommunityModules-deps.jar"


def run(module, cfg_text, wd, env=None, workers=4, simulate=None, depth=None, seed=None, timeout=1800, tag="run",
        heap=None, coverage=False, dfs=False):
    """Run TLC on spec/<module>.tla with the given configuration text; returns (lines, stats)."""
    os.makedirs(wd, exist_ok=True)
    cfg = os.path.join(wd, "%s_%s.cfg" % (module, tag))
    open(cfg, "w").write(cfg_text)
    meta = os.path.join(wd, "meta_%s" % tag)
    cmd = ["java"] + JAVA_OPTS + (["-Xmx%s" % heap] if heap else [])
    if dfs:
        cmd.append("-Dtlc2.tool.queue.IStateQueue=StateDeque")
    cmd += ["-cp", CP, "tlc2.TLC", "-workers", str(workers), "-metadir", meta, "-noGenerateSpecTE", "-config", cfg]
    if coverage:
        cmd += ["-coverage", "1"]
    if simulate is not None:
        cmd += ["-simulate", simulate]
        if depth:
            cmd += ["-depth", str(depth)]
    if seed is not None:
        cmd += ["-seed", str(seed)]
    cmd.append(os.path.join(SPEC, module + ".tla"))
    t0 = time.time()
    e = dict(os.environ)
    e.update(env or {})
    try:
        p = subprocess.run(cmd, env=e, capture_output=True, text=True, timeout=timeout, cwd=SPEC)
        out = p.stdout + p.stderr
        rc = p.returncode
    except subprocess.TimeoutExpired as ex:
        out = (ex.stdout or b"").decode(errors="replace") if isinstance(ex.stdout, bytes) else (ex.stdout or "")
        rc = -9
        subprocess.run(["pkill", "-f", meta], capture_output=True)
    wall = time.time() - t0
    lines = out.splitlines()
    stats = {"module": module, "wall": wall, "rc": rc, "generated": 0, "distinct": 0, "initial": 0,
             "mode": "simulate" if simulate else "bfs", "timeout": rc == -9}
    for l in lines:
        m = re.match(r"(\d+) states generated, (\d+) distinct states found", l)
        if m:
            stats["generated"], stats["distinct"] = int(m.group(1)), int(m.group(2))
        m = re.match(r"Finished computing initial states: (\d+) distinct state", l)
        if m:
            stats["initial"] = int(m.group(1))
        m = re.search(r"The number of states generated: (\d+)", l)
        if m:
            stats["generated"] = stats["distinct"] = int(m.group(1))
    stats["errors"] = error_blocks(lines)
    return lines, stats


def error_blocks(lines):
    """TLC 'Error:' blocks that are not invariant-violation reports of our always-true verdict invariants."""
    blocks = []
    i = 0
    while i < len(lines):
        if lines[i].startswith("Error:"):
            j = i + 1
            while j < len(lines) and not lines[j].startswith(("Error:", "Finished", "Progress", "State ")) and j - i < 12:
                j += 1
            blocks.append("\n".join(lines[i:j]))
            i = j
        else:
            i += 1
    return blocks


def printed(lines, prefix):
    """The strings PrintT'ed with the given prefix (TLC prints them as quoted TLA+ strings)."""
    out = []
    for l in lines:
        l = l.strip()
        if l.startswith('"' + prefix):
            try:
                out.append(json.loads(l))
            except Exception:
                out.append(l.strip('"').replace('\\"', '"').replace("\\\\", "\\"))
    return out


def run_sharded(module, cfg_text, wd, items, env_key, make_batch, shards=None, workers=None, timeout=1800, tag="b", heap="6g"):
    """Split `items` over several JVMs (the state graph of a batch is thousands of independent chains, which
    one TLC instance does not parallelise well).  Returns [(shard_items_indices, lines, stats)]."""
    n = len(items)
    if n == 0:
        return []
    cores = ncores()
    if shards is None:
        shards = max(1, min(n, cores // 4 if cores >= 8 else 1, 4))
    if workers is None:
        workers = max(1, cores // shards)
    # round-robin so that expensive families are spread
    idx = [list(range(k, n, shards)) for k in range(shards)]
    idx = [ix for ix in idx if ix]

    def one(k):
        bf = os.path.join(wd, "%s_%d.json" % (tag, k))
        json.dump(make_batch([items[i] for i in idx[k]]), open(bf, "w"))
        lines, stats = run(module, cfg_text, wd, env={env_key: bf}, workers=workers, timeout=timeout, tag="%s%d" % (tag, k), heap=heap)
        return idx[k], lines, stats

    with ThreadPoolExecutor(len(idx)) as ex:
        return list(ex.map(one, range(len(idx))))
