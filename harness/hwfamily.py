"""Generated architecture / bindings / format option vectors for metrics mode (C11, C12, C14, C13, C15 corpora).

The generator proposes; the compiler disposes: a proposal the compiler rejects is counted as rejected, never judged."""
import random

from families import mk_yaml


def concord(ranks, lo):
    return sorted(ranks, key=lambda r: lo.index(r))


HW_BASES = [
    # name, declaration, expression(s), loop orders
    ("gemv", {"A": ["K", "M"], "B": ["K"], "Z": ["M"]}, ["Z[m] = A[k, m] * B[k]"], [["M", "K"], ["K", "M"]]),
    ("gemm", {"A": ["K", "M"], "B": ["K", "N"], "Z": ["M", "N"]}, ["Z[m, n] = A[k, m] * B[k, n]"], [["M", "K", "N"], ["K", "M", "N"], ["M", "N", "K"]]),
    ("elem", {"A": ["M"], "B": ["M"], "Z": ["M"]}, ["Z[m] = A[m] * B[m]"], [["M"]]),
    ("three", {"A": ["K", "M"], "B": ["K", "M"], "C": ["K"], "Z": ["M"]}, ["Z[m] = A[k, m] * B[k, m] * C[k]"], [["M", "K"], ["K", "M"]]),
    ("sum", {"A": ["M"], "B": ["M"], "Z": ["M"]}, ["Z[m] = A[m] + B[m]"], [["M"]]),
]


def gen_hw(rng):
    """One metrics-mode specification: Einsum template x (declared / mapped rank orders, not necessarily concordant with the loop order)
    x optional partitioning of one rank (shape or occupancy) x architecture/binding/format option vector."""
    name, decl0, exprs, los = rng.choice(HW_BASES)
    lo0 = rng.choice(los)
    out = "Z"
    inputs = [t for t in decl0 if t != out]
    # declaration order and mapping rank-order: random, so that swizzles (and merger-less reorderings) appear
    decl = {t: (rng.sample(r, len(r)) if rng.random() < 0.4 else list(r)) for t, r in decl0.items()}
    ro = {}
    for t, r in decl.items():
        c = rng.random()
        if c < 0.45:
            ro[t] = concord(r, lo0)
        elif c < 0.65 and len(r) > 1:
            ro[t] = rng.sample(r, len(r))
    # optional partitioning of one rank
    part, levels_of = {}, {r: [r] for r in lo0}
    if rng.random() < 0.45 and "+" not in exprs[0]:
        r = rng.choice(lo0)
        holders = [t for t in inputs if r in decl[t]]
        kind = rng.choice(["us", "us", "uo", "us2", "usuo", "uo2"])
        if kind == "uo" and holders:
            part[r] = ["uniform_occupancy(%s.%d)" % (rng.choice(holders), rng.choice([1, 2]))]
        elif kind == "usuo" and holders:          # a shape split with an occupancy split of its lower level stacked below
            part[r] = ["uniform_shape(%d)" % rng.choice([3, 4]), "uniform_occupancy(%s.%d)" % (rng.choice(holders), rng.choice([1, 2]))]
        elif kind == "uo2" and holders:
            part[r] = ["uniform_occupancy(%s.2)" % rng.choice(holders), "uniform_occupancy(%s.1)" % rng.choice(holders)]
        elif kind == "us2":
            part[r] = ["uniform_shape(4)", "uniform_shape(2)"]
        else:
            part[r] = ["uniform_shape(%d)" % rng.choice([2, 3])]
        n = len(part[r])
        levels_of[r] = [r + str(i) for i in range(n, -1, -1)]
    from families import interleave
    lo = interleave(rng, [levels_of[r] for r in lo0]) if rng.random() < 0.5 else [l for r in lo0 for l in levels_of[r]]
    # keep the relative order of distinct root ranks as in lo0 for the first level of each (legal dataflows) -- the compiler rejects the rest

    def tranks(t):
        rs = [l for l in lo if any(l in levels_of[r] for r in decl[t])]
        return rs

    nspace = rng.choice([0, 0, 1])
    space = lo[-nspace:] if nspace and len(lo) > 1 else []
    time_ = [r for r in lo if r not in space]
    st = {out: {"space": space, "time": time_}}
    y = mk_yaml(decl, exprs, ro=ro, part={out: part} if part else None, lo={out: lo}, st=st)
    # ---- format: rank-order = the tensor's (partitioned) ranks in loop order
    fmt = "format:\n"
    for t in decl:
        rs = tranks(t)
        fmt += "  %s:\n    default:\n      rank-order: [%s]\n" % (t, ", ".join(rs))
        for r in rs:
            f = rng.choice(["U", "C"])
            fmt += "      %s:\n        format: %s\n" % (r, f)
            if f == "C" or rng.random() < 0.3:
                fmt += "        cbits: %d\n" % rng.choice([8, 16, 32])
            fmt += "        pbits: %d\n" % rng.choice([8, 32, 64])
    # ---- architecture
    freq = rng.choice([2, 3, 5, 7])
    bw = rng.choice([2, 3, 5, 7, 11])
    buf_class = rng.choice(["Buffet", "Buffet", "Buffet", "Cache", None])
    npe = rng.choice([0, 1, 2])
    isect = rng.choice([None, "leader-follower", "skip-ahead", "two-finger"]) if name != "sum" else None
    has_mul = "*" in exprs[0] and rng.random() < 0.8
    has_add = rng.random() < 0.6
    has_seq = rng.random() < 0.4
    arch = "architecture:\n  Accel:\n  - name: System\n    attributes:\n      clock_frequency: %d\n    local:\n    - name: MainMemory\n      class: DRAM\n      attributes:\n        bandwidth: %d\n" % (freq, bw)
    nchip = rng.choice([0, 0, 1, 3])                      # the level holding the first buffer may itself be replicated
    arch += "    subtree:\n    - name: %s\n" % ("Chip" if nchip == 0 else "Chip[0..%d]" % nchip)
    if buf_class:
        arch += "      local:\n      - name: Buf\n        class: %s\n        attributes:\n          width: %d\n          depth: %d\n" % (buf_class, rng.choice([8, 64]), rng.choice([16, 1024]))
        if rng.random() < 0.6:
            arch += "          bandwidth: %d\n" % rng.choice([3, 13])
    arch += "      subtree:\n      - name: PE[0..%d]\n        local:\n" % npe
    buf1 = buf_class is not None and rng.random() < 0.5
    if buf1:
        arch += "        - name: Buf1\n          class: Buffet\n          attributes:\n            width: 8\n            depth: 64\n"
    if isect:
        arch += "        - name: Isect\n          class: Intersector\n          attributes:\n            type: %s\n" % isect
    if has_mul:
        arch += "        - name: FPMul\n          class: Compute\n          attributes:\n            type: mul\n"
    if has_add:
        arch += "        - name: FPAdd\n          class: Compute\n          attributes:\n            type: add\n"
    if has_seq:
        arch += "        - name: Seq\n          class: Sequencer\n          attributes:\n            num_ranks: %d\n" % len(lo)
    # hardware merger for an input whose stored rank order is not the loop order (the init-ranks may differ from the stored order:
    # the compiler then inserts an extra swizzle to bring the tensor into the merger's input order first)
    merger = None
    cands = [t for t in inputs if len(decl[t]) > 1 and ro.get(t, decl[t]) != tranks(t) and all(r in lo for r in decl[t])]
    if cands and rng.random() < 0.6:
        t = rng.choice(cands)
        init = list(ro.get(t, decl[t])) if rng.random() < 0.6 else rng.sample(decl[t], len(decl[t]))
        if init != tranks(t):
            merger = (t, init, tranks(t))
            arch += ("        - name: Mrg\n          class: Merger\n          attributes:\n            inputs: %d\n            comparator_radix: %d\n            outputs: 1\n            order: %s\n            reduce: False\n"
                     % (rng.choice([2, 4]), rng.choice([2, 4]), rng.choice(["fifo", "opt"])))
    if not (isect or has_mul or has_add or has_seq or buf1 or merger):
        arch += "        - name: FPAdd2\n          class: Compute\n          attributes:\n            type: add\n"
    # ---- bindings
    b = "bindings:\n  %s:\n  - config: Accel\n    prefix: tmp/%s\n" % (out, name)
    dram = []
    for t in decl:
        for r in tranks(t):
            for ty in ("coord", "payload"):
                if rng.random() < 0.6:
                    dram.append((t, r, ty))
    if dram:
        b += "  - component: MainMemory\n    bindings:\n"
        for t, r, ty in dram:
            b += "    - tensor: %s\n      rank: %s\n      type: %s\n      format: default\n" % (t, r, ty)
    if buf_class and dram:
        sub = [x for x in dram if rng.random() < 0.6]
        if sub:
            b += "  - component: Buf\n    bindings:\n"
            for t, r, ty in sub:
                b += "    - tensor: %s\n      rank: %s\n      type: %s\n      format: default\n" % (t, r, ty)
                if buf_class == "Buffet":
                    outer = [x for x in lo[:lo.index(r)]] if r in lo else []
                    b += "      evict-on: %s\n" % rng.choice(["root"] + outer)
                    if rng.random() < 0.6:
                        b += "      style: %s\n" % rng.choice(["lazy", "eager", "eager"] if t == out else ["lazy", "eager"])
    if buf1 and dram:
        # a second buffer level below the first: same (tensor, rank, type) paths, styles chosen independently
        sub1 = [x for x in dram if rng.random() < 0.5]
        if sub1:
            b += "  - component: Buf1\n    bindings:\n"
            for t, r, ty in sub1:
                outer = [x for x in lo[:lo.index(r)]] if r in lo else []
                style = rng.choice(["lazy", "eager"]) if outer else "lazy"         # (an eager buffet evicting on root is not supported by the compiler)
                b += "    - tensor: %s\n      rank: %s\n      type: %s\n      format: default\n      evict-on: %s\n      style: %s\n" % (t, r, ty, rng.choice(outer) if style == "eager" else rng.choice(["root"] + outer), style)
    if isect:
        shared = [l for l in lo if sum(1 for t in inputs if l in tranks(t)) >= 2]
        if shared:
            # one intersector bound to one or two ranks of the Einsum, each with its own leader
            rs = rng.sample(shared, 2 if len(shared) >= 2 and rng.random() < 0.4 else 1)
            b += "  - component: Isect\n    bindings:\n"
            for r in rs:
                b += "    - rank: %s\n" % r
                if isect == "leader-follower":
                    b += "      leader: %s\n" % rng.choice([t for t in inputs if r in tranks(t)])
    if merger:
        b += "  - component: Mrg\n    bindings:\n    - tensor: %s\n      init-ranks: [%s]\n      final-ranks: [%s]\n" % (merger[0], ", ".join(merger[1]), ", ".join(merger[2]))
    if has_mul:
        b += "  - component: FPMul\n    bindings:\n    - op: mul\n"
    if has_add:
        b += "  - component: FPAdd\n    bindings:\n    - op: add\n"
    if has_seq:
        # bound to the loop ranks, or (stable: decided by the specification text, not by a further draw) to the root ranks of the Einsum
        seq_ranks = lo0 if (part and len(y) % 2 == 0) else lo
        b += "  - component: Seq\n    bindings:\n" + "".join("    - rank: %s\n" % r for r in seq_ranks)
    full = y + fmt + arch + b
    cfg = {r: (4 if r in part else 3) for rs in decl.values() for r in rs}
    plain = mk_yaml(decl, exprs, ro=ro, part={out: part} if part else None, lo={out: lo})
    return {"yaml": full, "configs": [cfg], "family": "hw-" + name + ("-part" if part else "") + ("-merger" if merger else ""), "key": full, "hw": True, "plain_yaml": plain,
            "arch": {"freq": freq, "bw": bw, "npe": npe + 1}}


def hw_core():
    """Fixed core: leader-follower intersections whose leader is each operand of the term (also the non-first ones)."""
    out = []
    cases = [("gemvL", {"A": ["K", "M"], "B": ["K"], "Z": ["M"]}, "Z[m] = A[k, m] * B[k]", ["K", "M"], "K", ["A", "B"]),
             ("gemmL", {"A": ["K", "M"], "B": ["K", "N"], "Z": ["M", "N"]}, "Z[m, n] = A[k, m] * B[k, n]", ["K", "M", "N"], "K", ["A", "B"]),
             ("takeL", {"A": ["K", "M"], "B": ["K"], "Z": ["M"]}, "Z[m] = take(A[k, m], B[k], 0)", ["K", "M"], "K", ["A", "B"]),
             ("threeL", {"A": ["K", "M"], "B": ["K", "M"], "C": ["K"], "Z": ["M"]}, "Z[m] = A[k, m] * B[k, m] * C[k]", ["M", "K"], "K", ["A", "B", "C"]),
             ("three3L", {"A": ["K", "M"], "B": ["K", "N"], "C": ["K", "P"], "Z": ["M", "N", "P"]}, "Z[m, n, p] = A[k, m] * B[k, n] * C[k, p]", ["K", "M", "N", "P"], "K", ["A", "B", "C"])]
    for name, decl, expr, lo, rank, leaders in cases:
        ro = {t: concord(r, lo) for t, r in decl.items()}
        y = mk_yaml(decl, [expr], ro=ro, lo={"Z": lo}, st={"Z": {"space": [], "time": lo}})
        fmt = "format:\n" + "".join("  %s:\n    default:\n      rank-order: [%s]\n" % (t, ", ".join(ro[t])) + "".join("      %s:\n        format: C\n        pbits: 32\n" % r for r in ro[t]) for t in decl)
        for L in leaders:
            arch = "architecture:\n  Accel:\n  - name: System\n    attributes:\n      clock_frequency: 3\n    local:\n    - name: Isect\n      class: Intersector\n      attributes:\n        type: leader-follower\n    - name: FPMul\n      class: Compute\n      attributes:\n        type: mul\n"
            b = "bindings:\n  Z:\n  - config: Accel\n    prefix: tmp/%s\n  - component: Isect\n    bindings:\n    - rank: %s\n      leader: %s\n  - component: FPMul\n    bindings:\n    - op: mul\n" % (name, rank, L)
            out.append({"yaml": y + fmt + arch + b, "configs": [{r: (2 if name == "three3L" else 3) for rs in decl.values() for r in rs}], "family": "hw-core-" + name, "key": name + L,
                        "hw": True, "plain_yaml": y, "arch": {}, "cap": 30})
    # ONE leader-follower intersector bound to two ranks of the Einsum, every combination of leaders
    two = [("twoL", {"A": ["K", "M", "I"], "B": ["K", "M", "J"], "Z": ["I", "J"]}, "Z[i, j] = A[k, m, i] * B[k, m, j]", ["K", "M", "I", "J"], ("K", "M")),
           ("twoLe", {"A": ["M", "K"], "B": ["M", "K"], "Z": ["M"]}, "Z[m] = A[m, k] * B[m, k]", ["M", "K"], ("M", "K"))]
    for name, decl, expr, lo, (r1, r2) in two:
        ro = {t: concord(r, lo) for t, r in decl.items()}
        y = mk_yaml(decl, [expr], ro=ro, lo={"Z": lo}, st={"Z": {"space": [], "time": lo}})
        fmt = "format:\n" + "".join("  %s:\n    default:\n      rank-order: [%s]\n" % (t, ", ".join(ro[t])) + "".join("      %s:\n        format: C\n        pbits: 32\n" % r for r in ro[t]) for t in decl)
        for L1 in ("A", "B"):
            for L2 in ("A", "B"):
                arch = "architecture:\n  Accel:\n  - name: System\n    attributes:\n      clock_frequency: 3\n    local:\n    - name: Isect\n      class: Intersector\n      attributes:\n        type: leader-follower\n    - name: FPMul\n      class: Compute\n      attributes:\n        type: mul\n"
                b = ("bindings:\n  Z:\n  - config: Accel\n    prefix: tmp/%s\n  - component: Isect\n    bindings:\n    - rank: %s\n      leader: %s\n    - rank: %s\n      leader: %s\n"
                     "  - component: FPMul\n    bindings:\n    - op: mul\n" % (name, r1, L1, r2, L2))
                out.append({"yaml": y + fmt + arch + b, "configs": [{r: 2 for rs in decl.values() for r in rs}], "family": "hw-core-" + name, "key": name + L1 + L2,
                            "hw": True, "plain_yaml": y, "arch": {}, "cap": 30})
    # a sequencer bound to the ROOT name of a partitioned rank (and to an unpartitioned one), and to the partition levels
    for seqr in (["K", "M"], ["K1", "M", "K0"]):
        decl = {"A": ["K", "M"], "B": ["K"], "Z": ["M"]}
        lo = ["K1", "M", "K0"]
        ro = {"A": ["K1", "M", "K0"], "B": ["K1", "K0"], "Z": ["M"]}
        y = mk_yaml(decl, ["Z[m] = A[k, m] * B[k]"], part={"Z": {"K": ["uniform_shape(2)"]}}, lo={"Z": lo}, st={"Z": {"space": [], "time": lo}})
        fmt = "format:\n" + "".join("  %s:\n    default:\n      rank-order: [%s]\n" % (t, ", ".join(ro[t])) + "".join("      %s:\n        format: C\n        pbits: 32\n" % r for r in ro[t]) for t in decl)
        arch = ("architecture:\n  Accel:\n  - name: System\n    attributes:\n      clock_frequency: 3\n    local:\n    - name: Seq\n      class: Sequencer\n      attributes:\n        num_ranks: %d\n"
                "    - name: FPMul\n      class: Compute\n      attributes:\n        type: mul\n" % len(seqr))
        b = ("bindings:\n  Z:\n  - config: Accel\n    prefix: tmp/seq\n  - component: Seq\n    bindings:\n" + "".join("    - rank: %s\n" % r for r in seqr) +
             "  - component: FPMul\n    bindings:\n    - op: mul\n")
        out.append({"yaml": y + fmt + arch + b, "configs": [{"K": 4, "M": 2}], "family": "hw-core-seq", "key": "seq" + "".join(seqr), "hw": True,
                    "plain_yaml": mk_yaml(decl, ["Z[m] = A[k, m] * B[k]"], part={"Z": {"K": ["uniform_shape(2)"]}}, lo={"Z": lo}), "arch": {}, "cap": 12})
    out += eager_core()
    out += flatten_core()
    out += stack_core()
    out += cascade_core()
    return out


def flatten_core():
    """Fixed core: flattened ranks in metrics mode (explicit output shape; merger on a tensor that is flattened and split).
    Both specifications exhibit known findings (KF-FLATSHAPE, KF-MERGER-ORDER) and are kept so that they are re-derived on every run."""
    out = []
    y1 = ("einsum:\n  declaration:\n    Z: [K, M]\n    A: [K, M]\n  expressions:\n    - Z[k, m] = A[k, m]\nmapping:\n  partitioning:\n    Z:\n      (K, M): [flatten()]\n"
          "  spacetime:\n    Z:\n      space: []\n      time: [KM]\n")
    hw1 = ("format:\n  A:\n    default:\n      rank-order: [KM]\n      KM:\n        format: C\n        pbits: 32\n"
           "architecture:\n  accel:\n  - name: level0\n    attributes:\n      clock_frequency: 3\n    local:\n    - name: Buffer\n      class: Buffet\n      attributes:\n        width: 64\n        depth: 1024\n"
           "bindings:\n  Z:\n  - config: accel\n    prefix: tmp/Z\n  - component: Buffer\n    bindings:\n    - tensor: A\n      rank: KM\n      type: payload\n      evict-on: root\n      format: default\n")
    out.append({"yaml": y1 + hw1, "configs": [{"K": 2, "M": 2}], "family": "hw-core-flatten", "key": "flat-out", "hw": True,
                "plain_yaml": y1.replace("  spacetime:\n    Z:\n      space: []\n      time: [KM]\n", ""), "arch": {}, "cap": 8})
    y2 = ("einsum:\n  declaration:\n    A: [K, M, P]\n    Z: [K, M, P]\n  expressions:\n    - Z[k, m, p] = A[k, m, p]\nmapping:\n  partitioning:\n    Z:\n      (M, K): [flatten()]\n      P: [uniform_shape(4)]\n"
          "  loop-order:\n    Z: [P1, MK, P0]\n")
    st2 = "  spacetime:\n    Z:\n      space: []\n      time: [P1, MK, P0]\n"
    hw2 = ("format:\n  A:\n    default:\n      rank-order: [P1, MK, P0]\n" + "".join("      %s:\n        format: C\n        pbits: 32\n" % r for r in ("P1", "MK", "P0")) +
           "architecture:\n  Accel:\n  - name: System\n    attributes:\n      clock_frequency: 3\n    local:\n    - name: Mrg\n      class: Merger\n      attributes:\n        inputs: 2\n        comparator_radix: 2\n        outputs: 1\n        order: fifo\n        reduce: False\n"
           "bindings:\n  Z:\n  - config: Accel\n    prefix: tmp/Z\n  - component: Mrg\n    bindings:\n    - tensor: A\n      init-ranks: [K, M, P1, P0]\n      final-ranks: [M, K, P1, P0]\n")
    out.append({"yaml": y2 + st2 + hw2, "configs": [{"K": 2, "M": 2, "P": 5}], "family": "hw-core-flatten", "key": "flat-merger", "hw": True, "plain_yaml": y2, "arch": {}, "cap": 8})
    # a flattened operand, the other operand's rank accessed by lookup (getPayload with a get_payload_<T> trace), bound lazily / eagerly
    # as payload to a cache and a buffet
    for style in ("lazy", "eager"):
        yl = ("einsum:\n  declaration:\n    A: [K, M]\n    B: [K, N]\n    Z: [M, N]\n  expressions:\n    - Z[m, n] = A[k, m] * B[k, n]\nmapping:\n  rank-order:\n    A: [M, K]\n    B: [N, K]\n    Z: [M, N]\n"
              "  partitioning:\n    Z:\n      (M, K): [flatten()]\n  loop-order:\n    Z: [N, MK]\n")
        stl = "  spacetime:\n    Z:\n      space: []\n      time: [N, MK]\n"
        hwl = ("architecture:\n  Accel:\n  - name: System\n    attributes:\n      clock_frequency: 3\n    local:\n    - name: Mem\n      class: DRAM\n      attributes:\n        bandwidth: 5\n"
               "    subtree:\n    - name: Chip\n      local:\n      - name: L2\n        class: Cache\n        attributes:\n          width: 64\n          depth: 1024\n          bandwidth: 7\n"
               "      subtree:\n      - name: PE\n        local:\n        - name: RF\n          class: Buffet\n          attributes:\n            width: 64\n            depth: 16\n"
               "        - name: Mul\n          class: Compute\n          attributes:\n            type: mul\n"
               "format:\n  A:\n    flat:\n      rank-order: [MK]\n      MK:\n        format: C\n        cbits: 32\n        pbits: 32\n"
               "  B:\n    dense:\n      rank-order: [N, K]\n      N:\n        format: U\n        pbits: 32\n      K:\n        format: U\n        pbits: 32\n"
               "bindings:\n  Z:\n  - config: Accel\n    prefix: tmp/flat\n  - component: Mem\n    bindings:\n    - {tensor: A, rank: MK, type: payload, format: flat}\n    - {tensor: B, rank: K, type: payload, format: dense}\n"
               "  - component: L2\n    bindings:\n    - {tensor: B, rank: K, type: payload, format: dense}\n    - {tensor: B, rank: N, type: payload, format: dense}\n"
               "  - component: RF\n    bindings:\n    - {tensor: A, rank: MK, type: payload, format: flat, evict-on: N}\n    - {tensor: B, rank: K, type: payload, format: dense, evict-on: N, style: %s}\n"
               "  - component: Mul\n    bindings:\n    - op: mul\n" % style)
        out.append({"yaml": yl + stl + hwl, "configs": [{"K": 2, "M": 2, "N": 2}], "family": "hw-core-flatten", "key": "flat-lookup-%s" % style, "hw": True, "plain_yaml": yl, "arch": {}, "cap": 10})
    # three ranks of the output flattened at once (explicit shape = product of the three extents), alone and with occupancy below
    for occ in (False, True):
        y3 = ("einsum:\n  declaration:\n    Z: [M, N, O]\n    A: [M, N, O]\n  expressions:\n    - Z[m, n, o] = A[m, n, o]\nmapping:\n  partitioning:\n    Z:\n      (M, N, O): [flatten()]\n"
              + ("      MNO: [uniform_occupancy(A.2)]\n" if occ else "") + "  loop-order:\n    Z: [%s]\n" % ("MNO1, MNO0" if occ else "MNO"))
        st3 = "  spacetime:\n    Z:\n      space: []\n      time: [%s]\n" % ("MNO1, MNO0" if occ else "MNO")
        rk = ["MNO1", "MNO0"] if occ else ["MNO"]
        hw3 = ("format:\n  A:\n    default:\n      rank-order: [%s]\n" % ", ".join(rk) + "".join("      %s:\n        format: C\n        pbits: 32\n" % r for r in rk) +
               "architecture:\n  accel:\n  - name: level0\n    attributes:\n      clock_frequency: 3\n    local:\n    - name: Buffer\n      class: Buffet\n      attributes:\n        width: 64\n        depth: 1024\n"
               "bindings:\n  Z:\n  - config: accel\n    prefix: tmp/Z\n  - component: Buffer\n    bindings:\n    - tensor: A\n      rank: %s\n      type: payload\n      evict-on: root\n      format: default\n" % rk[-1])
        out.append({"yaml": y3 + st3 + hw3, "configs": [{"M": 2, "N": 3, "O": 2}], "family": "hw-core-flatten", "key": "flat3-out-%s" % occ, "hw": True, "plain_yaml": y3, "arch": {}, "cap": 10, "dense_bias": True})
    return out


def eager_core():
    """Fixed core: eager / lazy buffets on the output and on an input, declared rank order concordant or not with the loop order."""
    out = []
    lo = ["M", "N", "K"]
    for zdecl in (["M", "N"], ["N", "M"]):
        for adecl in (["K", "M"], ["M", "K"]):
            decl = {"A": adecl, "B": ["K", "N"], "Z": zdecl}
            expr = "Z[%s] = A[%s] * B[k, n]" % (", ".join(r.lower() for r in zdecl), ", ".join(r.lower() for r in adecl))
            y = mk_yaml(decl, [expr], lo={"Z": lo}, st={"Z": {"space": [], "time": lo}})
            fmt = "format:\n" + "".join("  %s:\n    default:\n      rank-order: [%s]\n" % (t, ", ".join(concord(decl[t], lo))) +
                                          "".join("      %s:\n        format: C\n        cbits: 32\n        pbits: 32\n" % r for r in concord(decl[t], lo)) for t in decl)
            arch = ("architecture:\n  Accel:\n  - name: System\n    attributes:\n      clock_frequency: 3\n    local:\n    - name: MainMemory\n      class: DRAM\n      attributes:\n        bandwidth: 5\n"
                    "    subtree:\n    - name: Chip\n      local:\n      - name: Buf\n        class: Buffet\n        attributes:\n          width: 32\n          depth: 128\n")
            cands = []
            for tensor in ("Z", "A", "B"):
                for rank in decl[tensor]:
                    for evict in ["root"] + lo[:lo.index(rank)]:
                        cands.append((tensor, rank, evict))
            for tensor, rank, evict in cands:
                for style in ("eager", "lazy"):
                    b = "bindings:\n  Z:\n  - config: Accel\n    prefix: tmp/e\n  - component: MainMemory\n    bindings:\n"
                    b += "    - tensor: %s\n      rank: %s\n      type: payload\n      format: default\n" % (tensor, rank)
                    b += "  - component: Buf\n    bindings:\n    - tensor: %s\n      rank: %s\n      type: payload\n      format: default\n      evict-on: %s\n      style: %s\n" % (tensor, rank, evict, style)
                    out.append({"yaml": y + fmt + arch + b, "configs": [{"K": 3, "M": 3, "N": 3}], "family": "hw-core-eager", "key": "eager" + str((zdecl, adecl, tensor, rank, evict, style)),
                                "hw": True, "plain_yaml": y, "arch": {}, "cap": 6})
    return out


def gen_hw_cascade(rng):
    """Cascades of 2-4 element-wise Einsums in metrics mode: shared memories, per-Einsum or shared compute units, equal or different
    space/time splits -- so that fusion blocks of 1-4 Einsums with partly shared components arise."""
    n = rng.choice([2, 3, 3, 4])
    two_d = rng.random() < 0.3
    ranks = ["M", "N"] if two_d else ["M"]
    idx = ", ".join(r.lower() for r in ranks)
    decl = {"A": list(ranks)}
    exprs, ops = [], []
    prev = "A"
    for i in range(n):
        out = "Z" if i == n - 1 else ["Tq", "Tc", "Tx"][i]          # program order is not ascending string order
        other = "BCDE"[i]
        decl[other] = list(ranks)
        op = rng.choice(["*", "*", "+"])
        exprs.append("%s[%s] = %s[%s] %s %s[%s]" % (out, idx, prev, idx, op, other, idx))
        ops.append(op)
        decl[out] = list(ranks)
        prev = out
    outs = [e.split("[")[0] for e in exprs]
    st = {}
    for o in outs:
        sp = [ranks[-1]] if rng.random() < 0.2 else []
        st[o] = {"space": sp, "time": [r for r in ranks if r not in sp]}
    y = mk_yaml(decl, exprs, lo={o: list(ranks) for o in outs}, st=st)
    fmt = "format:\n" + "".join("  %s:\n    default:\n      rank-order: [%s]\n" % (t, ", ".join(ranks)) + "".join("      %s:\n        format: C\n        cbits: 16\n        pbits: 32\n" % r for r in ranks) for t in decl)
    freq, bw, npe = rng.choice([2, 3, 5]), rng.choice([3, 5, 7]), rng.choice([0, 1, 3])
    shared_fu = rng.random() < 0.3
    arch = ("architecture:\n  Accel:\n  - name: System\n    attributes:\n      clock_frequency: %d\n    local:\n    - name: MainMemory\n      class: DRAM\n      attributes:\n        bandwidth: %d\n"
            "    subtree:\n    - name: PE[0..%d]\n      local:\n      - name: Buf\n        class: Buffet\n        attributes:\n          width: 32\n          depth: 64\n" % (freq, bw, npe))
    for i in range(n):
        arch += "      - name: FU%d\n        class: Compute\n        attributes:\n          type: %s\n" % (i, "mul" if ops[i] == "*" else "add")
    # a second configuration of the same shape whose root level has the same name and another clock
    cfgs = ["Accel"]
    if rng.random() < 0.5:
        freq2 = rng.choice([f for f in (2, 3, 5, 7) if f != freq])
        arch += arch.split("architecture:\n", 1)[1].replace("  Accel:\n", "  Accel2:\n").replace("clock_frequency: %d\n" % freq, "clock_frequency: %d\n" % freq2)
        cfgs.append("Accel2")
    b = "bindings:\n"
    descs = []
    for i, o in enumerate(outs):
        cfg = rng.choice(cfgs)
        descs.append({"cfg": cfg, "loop": list(ranks), "space": list(st[o]["space"]), "comps": []})
        b += "  %s:\n  - config: %s\n    prefix: tmp/%s\n" % (o, cfg, o)
        t = "BCDE"[i] if rng.random() < 0.7 else o
        r = ranks[-1]
        b += "  - component: MainMemory\n    bindings:\n    - tensor: %s\n      rank: %s\n      type: payload\n      format: default\n" % (t, r)
        if rng.random() < 0.7:
            eager = two_d and rng.random() < 0.5
            b += "  - component: Buf\n    bindings:\n    - tensor: %s\n      rank: %s\n      type: payload\n      format: default\n      evict-on: %s\n      style: %s\n" % (t, r, "M" if eager else "root", "eager" if eager else "lazy")
        if rng.random() < 0.7:
            fu = 0 if (shared_fu and ops[i] == ops[0]) else i
            b += "  - component: FU%d\n    bindings:\n    - op: %s\n" % (fu, "mul" if ops[i] == "*" else "add")
            descs[-1]["comps"].append("FU%d" % fu)
    full = y + fmt + arch + b
    return {"yaml": full, "configs": [{r: 3 for r in ranks}], "family": "hw-cascade", "key": full, "hw": True, "plain_yaml": mk_yaml(decl, exprs, lo={o: list(ranks) for o in outs}),
            "arch": {}, "cap": 12, "fusion_descs": descs, "outs": outs}


def gen_hw_merger_cascade(rng):
    """Producer/consumer cascade in metrics mode (gamma-like): T[k,m,n] = A[k,m] * B[k,n]; Z[m,n] = T[k,m,n] * C[k,m,n], with K optionally
    split (differently) in both Einsums and a hardware merger bound to T in the consumer whose init-ranks are often exactly the order
    the producer built T in."""
    from families import interleave, levels
    decl = {"A": ["K", "M"], "B": ["K", "N"], "C": ["K", "M", "N"], "T": ["K", "M", "N"], "Z": ["M", "N"]}
    exprs = ["T[k, m, n] = A[k, m] * B[k, n]", "Z[m, n] = T[k, m, n] * C[k, m, n]"]
    part, lo = {}, {}
    lv = {}
    for out in ("T", "Z"):
        c = rng.random()
        if c < 0.6:
            part[out] = {"K": ["uniform_shape(%d)" % rng.choice([2, 3, 4])]}
            lv[out] = ["K1", "K0"]
        else:
            lv[out] = ["K"]
        lo[out] = interleave(rng, [lv[out], ["M"], ["N"]])
    st = {o: {"space": [], "time": lo[o]} for o in ("T", "Z")}
    y = mk_yaml(decl, exprs, part=part, lo=lo, st=st)
    final = list(lo["Z"])                                    # T holds every loop rank of Z
    if lv["T"] == lv["Z"] and rng.random() < 0.6:
        init = list(lo["T"])                                 # what the producer built
    else:
        init = rng.sample(final, len(final))
    arch = ("architecture:\n  Accel:\n  - name: System\n    attributes:\n      clock_frequency: 3\n    local:\n    - name: Mrg\n      class: Merger\n      attributes:\n        inputs: 4\n"
            "        comparator_radix: 4\n        outputs: 1\n        order: fifo\n        reduce: False\n    - name: FPMul\n      class: Compute\n      attributes:\n        type: mul\n")
    b = "bindings:\n  T:\n  - config: Accel\n    prefix: tmp/T\n  - component: FPMul\n    bindings:\n    - op: mul\n  Z:\n  - config: Accel\n    prefix: tmp/Z\n"
    if init != final:
        b += "  - component: Mrg\n    bindings:\n    - tensor: T\n      init-ranks: [%s]\n      final-ranks: [%s]\n" % (", ".join(init), ", ".join(final))
    full = y + arch + b
    return {"yaml": full, "configs": [{"K": 5, "M": 2, "N": 2}], "family": "hw-merger-cascade", "key": full, "hw": True, "plain_yaml": mk_yaml(decl, exprs, part=part, lo=lo),
            "arch": {}, "cap": 16}


_STACK_CORE = None


def stack_core(n=5):
    """Fixed core: metrics-mode specifications with a buffer binding and a shape split that has an occupancy split stacked below it (or two
    occupancy levels): the first n that the compiler accepts among gen_hw under fixed generator seeds (so the set is the same on every run)."""
    global _STACK_CORE
    if _STACK_CORE is None:
        import execpipe
        out = []
        for i in range(600):
            sp = gen_hw(random.Random(7000 + i))
            y = sp["yaml"]
            mixed = ("uniform_shape" in y and "uniform_occupancy" in y) or y.count("uniform_occupancy") >= 2
            if not (mixed and "component: Buf" in y):
                continue
            try:
                execpipe.compile_text(y, hw=True)
            except Exception:
                continue
            out.append(dict(sp, family="hw-core-stack", key="stack%d" % i))
            if len(out) >= n:
                break
        _STACK_CORE = out
    return [dict(sp) for sp in _STACK_CORE]


_CASCADE_CORE = None


def cascade_core(n=3):
    """Fixed core: metrics-mode cascades on ONE configuration in which no Einsum binds a functional unit and no rank is spatial -- all
    Einsums fuse into one block whose only timed component is the shared memory (first n of gen_hw_cascade under fixed generator seeds)."""
    global _CASCADE_CORE
    if _CASCADE_CORE is None:
        import execpipe
        out = []
        for i in range(800):
            sp = gen_hw_cascade(random.Random(9000 + i))
            y = sp["yaml"]
            if "component: FU" in y or "Accel2" in y or any(d["space"] for d in sp["fusion_descs"]):
                continue
            try:
                execpipe.compile_text(y, hw=True)
            except Exception:
                continue
            out.append(dict(sp, family="hw-core-cascade", key="casc%d" % i))
            if len(out) >= n:
                break
        _CASCADE_CORE = out
    return [dict(sp) for sp in _CASCADE_CORE]
