"""Generated architecture / bindings / format option vectors for metrics mode (C11, C12, C14, C13, C15 corpora).

The generator proposes; the compiler disposes: a proposal the compiler rejects is counted as rejected, never judged."""
from families import mk_yaml


def concord(ranks, lo):
    return sorted(ranks, key=lambda r: lo.index(r))


HW_BASES = [
    # name, declaration, expression(s), loop orders
    ("gemv", {"A": ["K", "M"], "B": ["K"], "Z": ["M"]}, ["Z[m] = A[k, m] * B[k]"], [["M", "K"], ["K", "M"]]),
    ("gemm", {"A": ["K", "M"], "B": ["K", "N"], "Z": ["M", "N"]}, ["Z[m, n] = A[k, m] * B[k, n]"], [["M", "K", "N"], ["K", "M", "N"], ["M", "N", "K"]]),
    ("elem", {"A": ["M"], "B": ["M"], "Z": ["M"]}, ["Z[m] = A[m] * B[m]"], [["M"]]),
    ("three", {"A": ["K", "M"], "B": ["K", "M"], "C": ["K"], "Z": ["M"]}, ["Z[m] = A[k, m] * B[k, m] * C[k]"], [["M", "K"], ["K", "M"]]),
    ("sum", {"A": ["M"], "B": ["M"], "Z": ["M"]}, ["Z[m] = A[m] + B[m]"], [["M"]]),
]


def gen_hw(rng):
    name, decl, exprs, los = rng.choice(HW_BASES)
    lo = rng.choice(los)
    out = "Z"
    ro = {t: concord(r, lo) for t, r in decl.items()}
    nspace = rng.choice([0, 0, 1])
    space = lo[-nspace:] if nspace and len(lo) > 1 else []
    time_ = [r for r in lo if r not in space]
    st = {out: {"space": space, "time": time_}}
    y = mk_yaml(decl, exprs, ro=ro, lo={out: lo}, st=st)
    inputs = [t for t in decl if t != out]
    # ---- format
    fmt = "format:\n"
    for t in decl:
        fmt += "  %s:\n    default:\n      rank-order: [%s]\n" % (t, ", ".join(ro[t]))
        for r in ro[t]:
            f = rng.choice(["U", "C"])
            fmt += "      %s:\n        format: %s\n" % (r, f)
            if f == "C" or rng.random() < 0.3:
                fmt += "        cbits: %d\n" % rng.choice([8, 16, 32])
            fmt += "        pbits: %d\n" % rng.choice([8, 32, 64])
    # ---- architecture
    freq = rng.choice([2, 3, 5, 7])
    bw = rng.choice([2, 3, 5, 7, 11])
    buf_class = rng.choice(["Buffet", "Buffet", "Cache", None])
    npe = rng.choice([0, 1, 2])
    isect = rng.choice([None, "leader-follower", "skip-ahead", "two-finger"]) if name != "sum" else None
    has_mul = "*" in exprs[0] and rng.random() < 0.8
    has_add = rng.random() < 0.6
    has_seq = rng.random() < 0.4
    arch = "architecture:\n  Accel:\n  - name: System\n    attributes:\n      clock_frequency: %d\n    local:\n    - name: MainMemory\n      class: DRAM\n      attributes:\n        bandwidth: %d\n" % (freq, bw)
    arch += "    subtree:\n    - name: Chip\n"
    if buf_class:
        arch += "      local:\n      - name: Buf\n        class: %s\n        attributes:\n          width: %d\n          depth: %d\n" % (buf_class, rng.choice([8, 64]), rng.choice([16, 1024]))
        if rng.random() < 0.3:
            arch += "          bandwidth: %d\n" % rng.choice([3, 13])
    arch += "      subtree:\n      - name: PE[0..%d]\n        local:\n" % npe
    comps = []
    if isect:
        arch += "        - name: Isect\n          class: Intersector\n          attributes:\n            type: %s\n" % isect
    if has_mul:
        arch += "        - name: FPMul\n          class: Compute\n          attributes:\n            type: mul\n"
    if has_add:
        arch += "        - name: FPAdd\n          class: Compute\n          attributes:\n            type: add\n"
    if has_seq:
        arch += "        - name: Seq\n          class: Sequencer\n          attributes:\n            num_ranks: %d\n" % len(lo)
    if not (isect or has_mul or has_add or has_seq):
        arch += "        - name: FPAdd2\n          class: Compute\n          attributes:\n            type: add\n"
    # ---- bindings
    b = "bindings:\n  %s:\n  - config: Accel\n    prefix: tmp/%s\n" % (out, name)
    dram = []
    for t in decl:
        for r in ro[t]:
            for ty in ("coord", "payload"):
                if rng.random() < 0.6:
                    dram.append((t, r, ty))
    if dram:
        b += "  - component: MainMemory\n    bindings:\n"
        for t, r, ty in dram:
            b += "    - tensor: %s\n      rank: %s\n      type: %s\n      format: default\n" % (t, r, ty)
    if buf_class and dram:
        sub = [x for x in dram if rng.random() < 0.6]
        if sub:
            b += "  - component: Buf\n    bindings:\n"
            for t, r, ty in sub:
                b += "    - tensor: %s\n      rank: %s\n      type: %s\n      format: default\n" % (t, r, ty)
                if buf_class == "Buffet":
                    outer = [x for x in lo[:lo.index(r)]] if r in lo else []
                    b += "      evict-on: %s\n" % rng.choice(["root"] + outer)
                    if rng.random() < 0.5:
                        b += "      style: %s\n" % rng.choice(["lazy", "eager"])
    if isect:
        shared = [r for r in lo if sum(1 for t in inputs if r in decl[t]) >= 2]
        if shared:
            r = rng.choice(shared)
            b += "  - component: Isect\n    bindings:\n    - rank: %s\n" % r
            if isect == "leader-follower":
                b += "      leader: %s\n" % rng.choice([t for t in inputs if r in decl[t]])
    if has_mul:
        b += "  - component: FPMul\n    bindings:\n    - op: mul\n"
    if has_add:
        b += "  - component: FPAdd\n    bindings:\n    - op: add\n"
    if has_seq:
        b += "  - component: Seq\n    bindings:\n" + "".join("    - rank: %s\n" % r for r in lo)
    full = y + fmt + arch + b
    cfg = {r: 3 for rs in decl.values() for r in rs}
    return {"yaml": full, "configs": [cfg], "family": "hw-" + name, "key": full, "hw": True, "plain_yaml": y,
            "arch": {"freq": freq, "bw": bw, "npe": npe + 1}}


def hw_core():
    """Fixed core: leader-follower intersections whose leader is each operand of the term (also the non-first ones)."""
    out = []
    cases = [("gemvL", {"A": ["K", "M"], "B": ["K"], "Z": ["M"]}, "Z[m] = A[k, m] * B[k]", ["K", "M"], "K", ["A", "B"]),
             ("gemmL", {"A": ["K", "M"], "B": ["K", "N"], "Z": ["M", "N"]}, "Z[m, n] = A[k, m] * B[k, n]", ["K", "M", "N"], "K", ["A", "B"]),
             ("takeL", {"A": ["K", "M"], "B": ["K"], "Z": ["M"]}, "Z[m] = take(A[k, m], B[k], 0)", ["K", "M"], "K", ["A", "B"]),
             ("threeL", {"A": ["K", "M"], "B": ["K", "M"], "C": ["K"], "Z": ["M"]}, "Z[m] = A[k, m] * B[k, m] * C[k]", ["M", "K"], "K", ["A", "B", "C"])]
    for name, decl, expr, lo, rank, leaders in cases:
        ro = {t: concord(r, lo) for t, r in decl.items()}
        y = mk_yaml(decl, [expr], ro=ro, lo={"Z": lo}, st={"Z": {"space": [], "time": lo}})
        fmt = "format:\n" + "".join("  %s:\n    default:\n      rank-order: [%s]\n" % (t, ", ".join(ro[t])) + "".join("      %s:\n        format: C\n        pbits: 32\n" % r for r in ro[t]) for t in decl)
        for L in leaders:
            arch = "architecture:\n  Accel:\n  - name: System\n    attributes:\n      clock_frequency: 3\n    local:\n    - name: Isect\n      class: Intersector\n      attributes:\n        type: leader-follower\n    - name: FPMul\n      class: Compute\n      attributes:\n        type: mul\n"
            b = "bindings:\n  Z:\n  - config: Accel\n    prefix: tmp/%s\n  - component: Isect\n    bindings:\n    - rank: %s\n      leader: %s\n  - component: FPMul\n    bindings:\n    - op: mul\n" % (name, rank, L)
            out.append({"yaml": y + fmt + arch + b, "configs": [{r: 3 for rs in decl.values() for r in rs}], "family": "hw-core-" + name, "key": name + L,
                        "hw": True, "plain_yaml": y, "arch": {}})
    return out
