"""C06 pipeline: emitted text -> HF-IR -> spec/Scope.tla (all paths).  The user-supplied name set is derived from the
specification text alone."""
import re

import execpipe
import hfir
import tlc
from common import MachineryError

SCOPE_CFG = "SPECIFICATION Spec\nINVARIANT Verdict\nCHECK_DEADLOCK FALSE\n"


def user_names(y):
    d = execpipe.load_yaml(y)
    decl = d["einsum"]["declaration"]
    mapping = d.get("mapping") or {}
    ro = mapping.get("rank-order") or {}
    names = set()
    produced = set()
    for ex in d["einsum"]["expressions"]:
        es = hfir.parse_einsum(ex)
        for t in es["terms"]:
            for f in t["facs"]:
                if f["k"] == "t":
                    if f["name"] not in produced and f["name"] in decl:
                        names.add(f["name"] + "_" + "".join(ro.get(f["name"], decl[f["name"]])))
                else:
                    names.add(f["name"])                       # scalar operand
        produced.add(es["out"]["name"])
    for rs in decl.values():
        names.update(rs)                                           # rank extents
    for ranks in (mapping.get("partitioning") or {}).values():
        for ds in (ranks or {}).values():
            for dct in ds:
                m = re.fullmatch(r"\s*(uniform_shape|nway_shape)\(\s*([A-Za-z_]\w*)\s*\)\s*", str(dct))
                if m:
                    names.add(m.group(2))
                m = re.fullmatch(r"\s*uniform_occupancy\(\s*\w+\s*\.\s*([A-Za-z_]\w*)\s*\)\s*", str(dct))
                if m:
                    names.add(m.group(1))
    return sorted(names)


def run_scope(progs, report, wd, what="scope", protocol=False):
    """progs: [{id, yaml, text, family, mode}] -> files violations into report; returns per-program findings."""
    entries = []
    kept = []
    for p in progs:
        try:
            code = hfir.convert(p["text"])
        except SyntaxError as ex:
            report.violation(dict(kind="scope", clause="NotPython: " + str(ex), spec=p["yaml"], text=p["text"], family=p["family"], mode=p.get("mode")))
            continue
        entries.append({"code": code, "user": user_names(p["yaml"]), "protocol": protocol})
        kept.append(p)
    res = tlc.run_sharded("Scope", SCOPE_CFG, wd, entries, "SCOPE_BATCH", lambda es: {"progs": es}, tag=what, timeout=1200, shards=2 if len(entries) > 20 else 1)
    found = [set() for _ in kept]
    for idx, lines, stats in res:
        report.add_tlc(stats, what)
        if stats["errors"] or stats["rc"] != 0 or stats["timeout"]:
            raise MachineryError("TLC failed on Scope batch: %s" % (stats["errors"] or [stats["rc"]])[0])
        for s in tlc.printed(lines, "SCOPE|"):
            _, pid, kind, name, pc = s.split("|")
            found[idx[int(pid) - 1]].add((kind, name))
    for p, fs in zip(kept, found):
        report.cov["programs"] += 1
        report.cov["traces_validated_against_impl"] += 1
        for kind, name in sorted(fs):
            clause = ("Err: unbound name " + name) if kind == "unbound" else ("Protocol: " + name) if kind == "protocol" else ("LoopVarsScoped: " + name + " read outside its loop")
            if (kind == "protocol") != bool(protocol):          # a protocol run judges the protocol only, a scope run the names only
                continue
            report.violation(dict(kind="scope", clause=clause, spec=p["yaml"], text=p["text"], family=p["family"], mode=p.get("mode"),
                                  site=execpipe.site_of("Err: unbound name " + name, p["text"])))
    return found
