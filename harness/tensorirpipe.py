"""C05 (ii)/(iii): hook (h1) traces -> spec/TensorIRTrace.tla; per-Einsum segments -> spec/Independence.tla."""
import ast
import copy
import hashlib
import json
import os
import re

import tlc
from common import GUARD, MachineryError

CFG = "SPECIFICATION Spec\nINVARIANT Verdict\nINVARIANT Accepted\nCHECK_DEADLOCK FALSE\n"
ICFG = "SPECIFICATION Spec\nINVARIANT Verdict\nCHECK_DEADLOCK FALSE\n"
TNAME = re.compile(r"[A-Z][A-Za-z0-9]*_[A-Z0-9_]*(_flat)?")


def record(y, hw=False):
    """Compile with the guard on and return (text, events as logged by the hook, untouched)."""
    os.environ[GUARD] = "1"
    os.environ.pop("TEAAL_VERIF_TRACE", None)
    from teaal import verif_hooks
    from teaal.parse import Einsum, Mapping, Architecture, Bindings, Format
    from teaal.trans.hifiber import HiFiber
    del verif_hooks.events[:]
    if hw:
        text = str(HiFiber(Einsum.from_str(y), Mapping.from_str(y), Architecture.from_str(y), Bindings.from_str(y), Format.from_str(y)))
    else:
        text = str(HiFiber(Einsum.from_str(y), Mapping.from_str(y)))
    evs = copy.deepcopy(verif_hooks.events)
    del verif_hooks.events[:]
    return text, evs


def prepare(evs, y=None):
    """Total, purely syntactic preparation: defaults for absent fields, identifiers defined/used by the logged statements."""
    out = []
    per_einsum = []
    if y is not None:
        import execpipe
        import hfir
        for ex in execpipe.load_yaml(y)["einsum"]["expressions"]:
            es = hfir.parse_einsum(ex)
            used = [es["out"]["name"]] + [f["name"] for t in es["terms"] for f in t["facs"] if f["k"] == "t"]
            imath = any(len(a) > 1 or a[0]["c"] != 1 for t in es["terms"] for f in t["facs"] for a in f["idx"]) or any(len(a) > 1 for a in [hfir.parse_einsum(ex)["out"]["idx"]] if False)
            per_einsum.append((used, imath))
    cur = ([], True)
    for e in evs:
        e = dict(e)
        if e["ev"] in ("PreBegin", "Begin") and per_einsum and "einsum" in e:
            cur = per_einsum[e["einsum"]]
        e["used"], e["imath"] = list(cur[0]), bool(cur[1])
        e.setdefault("stmts", [])
        e.setdefault("popped", [])
        e.setdefault("node", {"kind": "-", "type": "-"})
        e["node"] = dict(e["node"])
        e["node"].setdefault("type", "-")
        e["node"].setdefault("tensor", "-")
        e["node"].setdefault("ranks", [])
        e["node"] = {k: v for k, v in e["node"].items() if k in ("kind", "type", "tensor", "ranks", "rank")}
        e["node"].setdefault("rank", "-")
        if not isinstance(e["node"]["ranks"], list):
            e["node"]["ranks"] = []
        e["out"] = e.get("out", "-")
        e["tmp"] = e["tmp"] + 1                     # the counter starts at -1; TLC side uses naturals
        defs, uses = [], []
        for st in e["stmts"]:
            try:
                tree = ast.parse(st)
            except SyntaxError:
                continue
            for n in ast.walk(tree):
                if isinstance(n, ast.Name) and TNAME.fullmatch(n.id):
                    (defs if isinstance(n.ctx, ast.Store) else uses).append(n.id)
        e["defs"], e["uses"] = defs, uses
        e.pop("einsum", None)
        out.append({k: e[k] for k in ("ev", "node", "stmts", "popped", "out", "tmp", "tensors", "defs", "uses", "used", "imath")})
    return out


def validate(traces, wd, report, what="tensorir"):
    res = tlc.run_sharded("TensorIRTrace", CFG, wd, traces, "TENSORIR_TRACES", lambda ts: {"traces": [{"events": t} for t in ts]}, tag=what, timeout=1500, shards=2)
    rejected, accepted = {}, set()
    for idx, lines, stats in res:
        report.add_tlc(stats, what)
        if stats["errors"] or stats["timeout"]:
            raise MachineryError("TensorIRTrace.tla failed: %s" % (stats["errors"] or ["timeout"])[0][:400])
        for s in tlc.printed(lines, "TENSORIR|"):
            _, tid, l, ev, why = s.split("|", 4)
            rejected.setdefault(idx[int(tid) - 1], (int(l), ev, why))
        for s in tlc.printed(lines, "TENSORIROK|"):
            accepted.add(idx[int(s.split("|")[1]) - 1])
    return rejected, accepted


def segments(evs):
    """Statements of each Einsum: the top-level Node events between Begin(i) and Reset(i)."""
    segs, cur, depth = [], None, 0
    for e in evs:
        if e["ev"] == "Begin":
            cur, depth = [], 0
        elif e["ev"] == "LoopEnter":
            depth += 1
        elif e["ev"] == "Node":
            if e["node"]["kind"] == "LoopNode":
                depth -= 1
            if depth == 0 and cur is not None:
                cur += e.get("stmts", [])
        elif e["ev"] == "Reset":
            segs.append(cur)
            cur = None
    return segs


def canon_tmps(stmts):
    text = "\n".join(stmts)
    order = []
    for m in re.finditer(r"\btmp(\d+)\b", text):
        if m.group(0) not in order:
            order.append(m.group(0))
    for k, t in enumerate(order):
        text = re.sub(r"\b%s\b" % t, "TMP@%d" % k, text)
    return text


def seg_digest(stmts):
    return hashlib.sha1(canon_tmps(stmts).encode()).hexdigest()[:12]
