"""Shared plumbing of the checks: paths, seeds, scratch directories, evidence, verdict reporting.

Nothing here decides a property; every judgment is a TLC verdict parsed by tlc.py.
"""
import contextlib
import hashlib
import json
import os
import re
import shutil
import sys
import tempfile
import time

ROOT = os.path.dirname(os.path.dirname(os.path.abspath(__file__)))
REPO = os.environ.get("VERIF_REPO", "/repo")
SPEC = os.path.join(ROOT, "spec")
EVID = os.environ.get("VERIF_EVIDENCE_DIR") or os.path.join(ROOT, "evidence")
GUARD = "TEAAL_VERIF"

if REPO not in sys.path:
    sys.path.insert(0, REPO)


def seed():
    try:
        return int(os.environ.get("VERIF_SEED", "0"))
    except ValueError:
        return 0


def ncores():
    return int(os.environ.get("VERIF_CORES", str(os.cpu_count() or 4)))


@contextlib.contextmanager
def workdir(tag):
    base = os.environ.get("VERIF_TMP") or tempfile.gettempdir()
    d = tempfile.mkdtemp(prefix="teaal-verif-%s-" % tag, dir=base)
    try:
        yield d
    finally:
        if not os.environ.get("VERIF_KEEP"):
            shutil.rmtree(d, ignore_errors=True)


def digest(obj):
    return hashlib.sha1(json.dumps(obj, sort_keys=True).encode()).hexdigest()[:12]


class MachineryError(Exception):
    """The framework itself failed (TLC crash, unsupported syntax): exit code 2, never a verdict."""


# ----------------------------------------------------------------------------------------------
# known findings

def load_known():
    p = os.path.join(ROOT, "known_findings.json")
    if not os.path.exists(p):
        return []
    return json.load(open(p))["findings"]


def match_known(prop, viol, known=None):
    """A violation is known iff an *open* finding of this property matches all of its selectors.

    Selectors (all optional, all must hold): clause (regex, fullmatch on the failing clause),
    spec (list of regexes that must all be found in the specification text), text (regexes that must
    be found in the emitted program), not_spec (regexes that must not be found), inputs (list of
    input digests: the violation's input digest must be listed)."""
    for k in (load_known() if known is None else known):
        if k.get("status") != "open" or prop not in k["properties"]:
            continue
        ms = k.get("match", {})
        if isinstance(ms, list):          # alternatives: the finding matches when any one of them does
            if any(match_known(prop, viol, [dict(k, match=m1)]) for m1 in ms):
                return k
            continue
        m = ms
        if "clause" in m and not re.fullmatch(m["clause"], viol.get("clause", "")):
            continue
        spec = viol.get("spec", "")
        if any(not re.search(r, spec, re.S) for r in m.get("spec", [])):
            continue
        if any(re.search(r, spec, re.S) for r in m.get("not_spec", [])):
            continue
        if any(not re.search(r, viol.get("text", ""), re.S) for r in m.get("text", [])):
            continue
        if "site" in m:
            cm = re.fullmatch(m.get("clause", ".*"), viol.get("clause", ""))
            pat = m["site"]
            if cm and cm.groupdict():
                for g, val in cm.groupdict().items():
                    pat = pat.replace("{%s}" % g, re.escape(val or ""))
            if not re.search(pat, viol.get("site", "")):
                continue
        if "inputs" in m and viol.get("input_digest") not in m["inputs"]:
            continue
        if "family" in m and not re.fullmatch(m["family"], viol.get("family", "")):
            continue
        if "input_pred" in m:
            # a predicate over the failing input (sup: tensor -> non-zero cells, cfg: extents, meta: generator facts)
            try:
                ok = eval(m["input_pred"], {"__builtins__": {}, "sup": viol.get("input_by_tensor", {}), "cfg": viol.get("config", {}),
                                            "meta": viol.get("meta", {}), "any": any, "all": all, "len": len, "max": max, "min": min})
            except Exception:
                ok = False
            if not ok:
                continue
        return k
    return None


# ----------------------------------------------------------------------------------------------
# reporting

class Report:
    """Collects what one check run covered and found, writes evidence and prints the verdict lines."""

    def __init__(self, prop, tier, level="model_checking"):
        self.prop, self.tier, self.level = prop, tier, level
        self.t0 = time.time()
        self.cov = {"states": 0, "transitions": 0, "traces_validated_against_impl": 0, "samples": [],
                    "evaluations": 0, "distinct_nontrivial": 0, "programs": 0, "rejected_by_compiler": 0,
                    "tlc_runs": [], "exhaustive": False}
        self.assumptions = []
        self.violations = []   # dicts: clause, spec, text, detail...
        self.known_hits = {}
        self.notes = []

    def add_tlc(self, stats, what):
        self.cov["states"] += stats.get("distinct", 0)
        self.cov["transitions"] += stats.get("generated", 0)
        self.cov["tlc_runs"].append({"what": what, "module": stats.get("module"), "generated": stats.get("generated", 0),
                                     "distinct": stats.get("distinct", 0), "initial": stats.get("initial", 0),
                                     "wall_s": round(stats.get("wall", 0), 1), "mode": stats.get("mode", "bfs")})

    def sample(self, s):
        if len(self.cov["samples"]) < 6:
            self.cov["samples"].append(s)

    def known_hit(self, k, v):
        self.known_hits.setdefault(k["id"], {"finding": k, "count": 0, "example": v})
        self.known_hits[k["id"]]["count"] += 1

    def violation(self, v):
        k = match_known(self.prop, v)
        if k is not None:
            self.known_hit(k, v)
        else:
            self.violations.append(v)

    def finish(self):
        wall = time.time() - self.t0
        os.makedirs(EVID, exist_ok=True)
        replay_dir = os.path.join(EVID, "replay", self.prop)
        lines = []
        if self.violations:
            os.makedirs(replay_dir, exist_ok=True)
        seen = set()
        for i, v in enumerate(self.violations):
            key = (v.get("clause"), digest(v.get("spec", "")), v.get("family"))
            if key in seen:
                continue
            seen.add(key)
            if len(seen) > 25:
                break
            path = os.path.join(replay_dir, "viol_%02d.json" % len(seen))
            json.dump(v, open(path, "w"), indent=1, sort_keys=True, default=str)
            lines.append("VIOLATION property=%s replay=%s  (%s)" % (self.prop, path, v.get("clause", "")))
        for kid, h in sorted(self.known_hits.items()):
            print("KNOWN-FINDING: property=%s %s: %s [%d occurrence(s) this run]" % (
                self.prop, kid, h["finding"]["title"], h["count"]))
        cov = dict(self.cov)
        cov["known_findings_matched"] = {k: h["count"] for k, h in self.known_hits.items()}
        cov["notes"] = self.notes
        if not cov["samples"]:
            cov["samples"] = ["(no case was generated)"]
        ev = {"property_id": self.prop, "tier": self.tier, "seed": seed(), "level": self.level, "coverage": cov,
              "assumptions": self.assumptions, "wall_s": round(wall, 1), "violations": len(self.violations)}
        json.dump(ev, open(os.path.join(EVID, self.prop + ".json"), "w"), indent=1, sort_keys=True, default=str)
        for l in lines:
            print(l)
        print("%s %s: %d program(s)/case(s), %d TLC states, %d traces bound to the implementation, %d violation(s), %d known finding(s), %.1fs" % (
            self.prop, self.tier, cov["programs"] or cov["evaluations"], cov["states"], cov["traces_validated_against_impl"],
            len(self.violations), len(self.known_hits), wall))
        return 1 if self.violations else 0
