"""Run checks against a seeded change:  /venv/bin/python harness/seedrun.py <seeded-id> C01 C06 ...  [--tier quick]
Applies seeded/<id>/patch.diff to /repo, runs the checks, and ALWAYS restores /repo (git checkout -- . ; git clean of new files)."""
import subprocess
import sys

ROOT = "/verif"


def main():
    """Default: a scratch worktree of /repo HEAD (VERIF_REPO), so that /repo itself is never touched and other runs are not disturbed;
    --in-place applies the patch to /repo and restores it afterwards (git checkout -- .), as a user of the checks would."""
    import os
    import shutil
    import tempfile
    sid = sys.argv[1]
    checks = [a for a in sys.argv[2:] if not a.startswith("--") and a not in ("quick", "thorough")]
    tier = "quick"
    if "--tier" in sys.argv:
        tier = sys.argv[sys.argv.index("--tier") + 1]
    inplace = "--in-place" in sys.argv
    patch = "%s/seeded/%s/patch.diff" % (ROOT, sid)
    env = dict(os.environ)
    base = None
    if inplace:
        dirty = subprocess.run(["git", "-C", "/repo", "status", "--porcelain"], capture_output=True, text=True).stdout.strip()
        if dirty:
            print("refusing: /repo is not clean:\n" + dirty)
            return 2
        repo = "/repo"
    else:
        base = tempfile.mkdtemp(prefix="teaal-seedrun-")
        repo = os.path.join(base, "repo")
        if subprocess.run(["git", "-C", "/repo", "worktree", "add", "-q", "--detach", repo, "HEAD"]).returncode != 0:
            return 2
        env["VERIF_REPO"] = repo
        env["VERIF_EVIDENCE_DIR"] = os.path.join(base, "evidence")
    results, detail = {}, {}
    try:
        if subprocess.run(["git", "-C", repo, "apply", patch]).returncode != 0:
            print("patch does not apply")
            return 2
        for c in checks:
            p = subprocess.run(["./check", c, "--tier", tier], cwd=ROOT, capture_output=True, text=True, env=env)
            tail = [l for l in p.stdout.splitlines() if l.startswith(("VIOLATION", "KNOWN-FINDING", "MACHINERY", c))]
            results[c] = p.returncode
            viol = [l for l in p.stdout.splitlines() if l.startswith("VIOLATION")]
            detail[c] = "exit %d" % p.returncode + (", " + viol[0].split("  (", 1)[-1].rstrip(")")[:160] if viol and "  (" in viol[0] else "") + (" -- MISSED" if p.returncode == 0 and c == sid[:3] else "")
            print("== %s exit %d" % (c, p.returncode))
            for l in tail[:4] + tail[-1:]:
                print("   " + l[:220])
    finally:
        if inplace:
            subprocess.run(["git", "-C", "/repo", "checkout", "--", "."])
            subprocess.run(["git", "-C", "/repo", "clean", "-fdq", "teaal"])
        else:
            subprocess.run(["git", "-C", "/repo", "worktree", "remove", "--force", repo])
            shutil.rmtree(base, ignore_errors=True)
    print("SUMMARY", sid, results)
    if "--record" in sys.argv:
        import json
        mp = "%s/seeded/%s/meta.json" % (ROOT, sid)
        m = json.load(open(mp))
        m.setdefault("checks_run", {}).update(detail)
        m["caught_by"] = sorted(set(m.get("caught_by", [])) - set(results) | {c for c, rc in results.items() if rc == 1})
        json.dump(m, open(mp, "w"), indent=1)
    return 0


if __name__ == "__main__":
    sys.exit(main())
