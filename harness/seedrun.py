"""Run checks against a seeded change:  /venv/bin/python harness/seedrun.py <seeded-id> C01 C06 ...  [--tier quick]
Applies seeded/<id>/patch.diff to /repo, runs the checks, and ALWAYS restores /repo (git checkout -- . ; git clean of new files)."""
import subprocess
import sys

ROOT = "/verif"


def main():
    sid = sys.argv[1]
    checks = [a for a in sys.argv[2:] if not a.startswith("--")]
    tier = "quick"
    if "--tier" in sys.argv:
        tier = sys.argv[sys.argv.index("--tier") + 1]
    patch = "%s/seeded/%s/patch.diff" % (ROOT, sid)
    dirty = subprocess.run(["git", "-C", "/repo", "status", "--porcelain"], capture_output=True, text=True).stdout.strip()
    if dirty:
        print("refusing: /repo is not clean:\n" + dirty)
        return 2
    r = subprocess.run(["git", "-C", "/repo", "apply", patch])
    if r.returncode != 0:
        print("patch does not apply")
        return 2
    results = {}
    try:
        for c in checks:
            p = subprocess.run(["./check", c, "--tier", tier], cwd=ROOT, capture_output=True, text=True)
            tail = [l for l in p.stdout.splitlines() if l.startswith(("VIOLATION", "KNOWN-FINDING", "MACHINERY", c))]
            results[c] = p.returncode
            print("== %s exit %d" % (c, p.returncode))
            for l in tail[:4] + tail[-1:]:
                print("   " + l[:220])
    finally:
        subprocess.run(["git", "-C", "/repo", "checkout", "--", "."])
        subprocess.run(["git", "-C", "/repo", "clean", "-fdq", "teaal"])
    print("SUMMARY", sid, results)
    return 0


if __name__ == "__main__":
    sys.exit(main())
