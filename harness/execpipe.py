"""The EXEC pipeline (DESIGN 5): specification -> real compiler -> emitted text -> HF-IR -> HFMachine under TLC.

Python here only transports: it renders YAML, calls the compiler under test, converts text to HF-IR
syntactically, lists the bounded input space and parses TLC's verdict lines.  What a program computes,
what the Einsum means and whether they agree is decided by spec/HFMachine.tla + spec/EinsumSem.tla.
"""
import itertools
import json
import os
import random
import re

from ruamel.yaml import YAML

import hfir
import tlc
from common import MachineryError, digest, match_known, seed

HF_CFG = "SPECIFICATION Spec\nINVARIANT Verdict\nCHECK_DEADLOCK FALSE\n"


def compile_text(y, hw=False):
    from teaal.parse import Einsum, Mapping, Architecture, Bindings, Format
    from teaal.trans.hifiber import HiFiber
    if hw:
        return str(HiFiber(Einsum.from_str(y), Mapping.from_str(y), Architecture.from_str(y),
                           Bindings.from_str(y), Format.from_str(y)))
    return str(HiFiber(Einsum.from_str(y), Mapping.from_str(y)))


def load_yaml(y):
    return YAML(typ="safe", pure=True).load(y)


def einsum_descriptors(d, configs):
    """Oracle descriptors from the specification text alone (independent reader, hfir.parse_einsum)."""
    einsums = []
    for ex in d["einsum"]["expressions"]:
        es = hfir.parse_einsum(ex)
        vs = []
        for v in es["out"]["idx"]:
            if v not in vs:
                vs.append(v)
        for t in es["terms"]:
            for f in t["facs"]:
                for a in f["idx"]:
                    for tm in a:
                        if tm["v"] not in vs:
                            vs.append(tm["v"])
        es["vars"] = vs
        es["varext"] = {v: v.upper() for v in vs}
        es["maxext"] = max(max(c.get(v.upper(), 0) for c in configs) for v in vs) if vs else 0
        einsums.append(es)
    return einsums


def input_supports(inputs, cfg, tier, rng, cap=None, dense_bias=False):
    """The bounded input space of one program under one extents configuration: a list of supports
    (one list of non-zero cells per input tensor).  Deterministic core + seeded denser patterns."""
    cells = [[list(x) for x in itertools.product(*[range(cfg[r]) for r in i["shape"]])] for i in inputs]
    sups = []

    def add(s):
        s = [sorted(map(list, t)) for t in s]
        if s not in sups:
            sups.append(s)

    dense = [list(cs) for cs in cells]
    add(dense)
    add([[] for _ in cells])
    # every combination of tensors with <= 1 non-zero (all single contributions)
    single = [[[]] + [[c] for c in cs] for cs in cells]
    combos = 1
    for s in single:
        combos *= len(s)
    lim1 = 150 if tier == "quick" else 1500
    if combos <= lim1:
        for combo in itertools.product(*single):
            add(list(combo))
    else:
        for _ in range(lim1 // 2):
            add([rng.choice(s) for s in single])
    # one tensor sparse (<= 1 non-zero / one zero), the others dense
    for t in range(len(cells)):
        for c in cells[t]:
            s0 = [list(cs) for cs in cells]
            s0[t] = [c]
            add(s0)
            s1 = [list(cs) for cs in cells]
            s1[t] = [x for x in cells[t] if x != c]
            add(s1)
    nrand = (12 if tier == "quick" else 80)
    dens = (0.5, 0.75, 0.9, 0.35) if dense_bias else (0.25, 0.5, 0.5, 0.75, 0.9)
    for k in range(nrand):
        dd = dens[k % len(dens)]
        add([[c for c in cs if rng.random() < dd] for cs in cells])
    if tier == "thorough":
        # all tensors with <= 2 non-zeros when that is small
        two = [[[]] + [[c] for c in cs] + [list(p) for p in itertools.combinations(cs, 2)] for cs in cells]
        n2 = 1
        for s in two:
            n2 *= len(s)
        if n2 <= 4000:
            for combo in itertools.product(*two):
                add(list(combo))
    if cap and len(sups) > cap:
        head = sups[:2]
        rest = sups[2:]
        rng.shuffle(rest)
        sups = head + rest[:cap - 2]
    return sups


def make_entry(y, configs, pid, tier="quick", text=None, hw=False, rng=None, cap=None, dense_bias=False, family="", extra=None):
    """One batch entry for HFMachine from a specification text.  Raises whatever the compiler raises."""
    rng = rng or random.Random(seed())
    d = load_yaml(y)
    decl = d["einsum"]["declaration"]
    mapping = d.get("mapping") or {}
    ro = mapping.get("rank-order") or {}
    if text is None:
        text = compile_text(y, hw=hw)
    try:
        code = hfir.convert(text)
    except SyntaxError as ex:
        raise NotPython(text, str(ex))
    einsums = einsum_descriptors(d, configs)
    produced = [es["out"]["name"] for es in einsums]

    def uses(es, t):
        return any(f["k"] == "t" and f["name"] == t for tm in es["terms"] for f in tm["facs"])

    inputs = []
    for t, ranks in decl.items():
        first_def = next((i for i, es in enumerate(einsums) if es["out"]["name"] == t), None)
        first_use = next((i for i, es in enumerate(einsums) if uses(es, t)), None)
        if first_use is None or (first_def is not None and first_def < first_use):
            continue
        order = ro.get(t, ranks)
        inputs.append({"name": t, "var": t + "_" + "".join(order), "ids": list(order), "shape": list(ranks),
                       "perm": [ranks.index(r) + 1 for r in order]})
    scal = sorted({f["name"] for es in einsums for tm in es["terms"] for f in tm["facs"] if f["k"] == "v"})
    configs = [dict(c, **{v: c.get(v, 2 + i) for i, v in enumerate(scal)}) for c in configs]
    outs = []
    for t in dict.fromkeys(produced):
        ranks = decl[t]
        order = ro.get(t, ranks)
        outs.append({"name": t, "var": t + "_" + "".join(order), "ids": list(order), "perm": [ranks.index(r) + 1 for r in order]})
    sups = [input_supports(inputs, c, tier, rng, cap=cap, dense_bias=dense_bias) for c in configs]
    names = sorted(set(re.findall(r"\b([A-Z][A-Za-z0-9]*_[A-Z0-9_]*?(?:_flat)?)\b(?=\s*=|\.|,|\))", text)) | {i["var"] for i in inputs})
    tvars = []
    for nm in names:
        base = nm[:-5] if nm.endswith("_flat") else nm
        if "_" in base and base.split("_", 1)[0] in decl:
            tvars.append({"var": nm, "spelled": base.split("_", 1)[1]})
    st = mapping.get("spacetime") or {}
    e = {"id": pid, "code": code, "einsums": einsums, "inputs": inputs, "outs": outs, "configs": configs,
         "sups": sups, "tvars": tvars, "spacetime": bool(st), "stamped": bool(st) and bool((extra or {}).get("stamped", True)),
         "metrics": "metrics[\"time\"]" in text, "arch": arch_facts(d) if hw else {}, "usesHalo": "_halo=" in text, "usesNonUniform": "splitNonUniform(" in text}
    meta = {"id": pid, "yaml": y, "text": text, "family": family, "hw": hw, "n_inputs": sum(len(s) for s in sups),
            "variants": (2 if e["usesHalo"] else 1) * (2 if e["usesNonUniform"] else 1)}
    meta.update(extra or {})
    pts = []

    def walk(x):
        if isinstance(x, dict):
            if x.get("e") == "lambda" and x.get("ieee"):
                pts.extend(sorted({tuple(sorted([f["arg"]] + f["fv"])) for f in x["ieee"]}))
            for v in x.values():
                walk(v)
        elif isinstance(x, list):
            for v in x:
                walk(v)

    walk(code)
    if pts:
        meta["ieee_points"] = [list(p) for p in sorted(set(pts))]      # coordinate values at which a projection misfires in double precision
    return e, meta


def arch_facts(d):
    """Independent reader of the architecture/bindings sections: Einsum -> component -> kind, rate, instance count."""
    arch = d.get("architecture") or {}
    binds = d.get("bindings") or {}
    out = {}
    for einsum, bl in binds.items():
        cfg = next((b["config"] for b in bl if "config" in b), None)
        if cfg is None or cfg not in arch:
            continue
        root = arch[cfg][0]
        freq = (root.get("attributes") or {}).get("clock_frequency")
        comps = {}
        todo = [root]
        while todo:
            lvl = todo.pop()
            m = re.fullmatch(r"\s*\w+\s*\[\s*0\s*\.\.\s*(\d+)\s*\]\s*", str(lvl["name"]))
            inst = int(m.group(1)) + 1 if m else 1
            for c in lvl.get("local") or []:
                cls = str(c["class"]).lower()
                attrs = c.get("attributes") or {}
                if cls in ("dram", "buffet", "cache"):
                    kind, rate = "memory", attrs.get("bandwidth")
                else:
                    kind, rate = {"compute": "compute", "intersector": "intersector", "merger": "merger", "sequencer": "sequencer"}.get(cls, cls), freq
                if isinstance(rate, int) and rate < 2 ** 20:
                    comps[c["name"]] = {"kind": kind, "rate": rate, "inst": inst}
            todo.extend(lvl.get("subtree") or [])
        out[einsum] = comps
    return out


class NotPython(Exception):
    def __init__(self, text, msg):
        super().__init__(msg)
        self.text = text


VARIANTS = {(False, False): ["A1aA3a"], (True, False): ["A1aA3a", "A1bA3a"], (False, True): ["A1aA3a", "A1aA3b"],
            (True, True): ["A1aA3a", "A1bA3a", "A1aA3b", "A1bA3b"]}


def run_batch(items, report, relevant, wd, what, timeout=2400, shards=None):
    """items: [(entry, meta)].  Runs HFMachine over all of them; files violations of the relevant clauses
    into `report` (after the all-variants aggregation).  Returns per-program outcome dicts."""
    if not items:
        return []
    entries = [e for e, _ in items]
    res = tlc.run_sharded("HFMachine", HF_CFG, wd, entries, "HF_BATCH", lambda es: {"progs": es}, timeout=timeout, tag=what, shards=shards)
    outcomes = [{"fails": {}, "evalerr": None} for _ in items]
    for idx, lines, stats in res:
        report.add_tlc(stats, what)
        if stats["timeout"]:
            raise MachineryError("TLC timed out on batch %s" % what)
        errs = stats["errors"]
        if any("Parsing or semantic analysis failed" in b or "Parse Error" in b for b in errs) or any("***Parse Error***" in l or "Semantic errors" in l for l in lines):
            raise MachineryError("the specification does not parse: %s" % " | ".join(l for l in lines if "rror" in l)[:500])
        if errs or stats["rc"] not in (0,):
            # isolate: rerun every program of the shard alone to attribute the evaluation error
            bad = isolate(idx, entries, wd, what, report)
            for i, msg in bad.items():
                outcomes[i]["evalerr"] = msg
            if len(bad) == len(idx) and len(idx) > 3 and len(set(bad.values())) == 1:
                raise MachineryError("every program of the batch fails identically (%s): a fault of the machinery, not of the programs" % list(bad.values())[0][:300])
            if not bad:
                raise MachineryError("TLC failed on batch %s: %s" % (what, (errs or ["rc=%s" % stats["rc"]])[0][:600]))
            # verdict lines of the other programs of this shard were lost with the crash: rerun without the culprits
            keep = [i for i in idx if i not in bad]
            if keep:
                sub = tlc.run_sharded("HFMachine", HF_CFG, wd, [entries[i] for i in keep], "HF_BATCH", lambda es: {"progs": es}, timeout=timeout, tag=what + "r", shards=1)
                for idx2, lines2, stats2 in sub:
                    report.add_tlc(stats2, what + "-rerun")
                    if stats2["errors"]:
                        raise MachineryError("TLC failed again on batch %s" % what)
                    collect([keep[j] for j in idx2], lines2, outcomes)
            continue
        collect(idx, lines, outcomes)
    for (e, meta), oc in zip(items, outcomes):
        report.cov["programs"] += 1
        report.cov["evaluations"] += meta["n_inputs"] * meta["variants"]
        report.cov["traces_validated_against_impl"] += 1
        if oc["evalerr"]:
            report.violation(dict(kind="exec", clause="Err: program is not executable on the reference model (" + oc["evalerr"][:200] + ")",
                                  spec=meta["yaml"], text=meta["text"], family=meta["family"], pid=meta["id"]))
            continue
        variants = VARIANTS[(e["usesHalo"], e["usesNonUniform"])]
        rel = {}
        for (v, cfg, supi), clauses in oc["fails"].items():
            for c in clauses:
                if relevant(c):
                    rel.setdefault(c, {}).setdefault(v, []).append((cfg, supi))
        oc["relevant"] = rel
        for c, byv in rel.items():
            if not all(v in byv for v in variants):
                report.notes.append("variant-sensitive (not reported): %s %s fails only under %s" % (meta["id"], c, sorted(byv)))
                continue

            def viol(cfg, supi):
                sup = e["sups"][cfg - 1][supi - 1]
                return dict(kind="exec", clause=c, spec=meta["yaml"], text=meta["text"], family=meta["family"], pid=meta["id"],
                            config=e["configs"][cfg - 1], input_support=sup, input_digest=digest([e["configs"][cfg - 1], sup]),
                            input_by_tensor={i["name"]: s for i, s in zip(e["inputs"], sup)}, meta={k: v for k, v in meta.items() if k not in ("yaml", "text")},
                            failing_inputs={v: len(x) for v, x in byv.items()}, variants=variants,
                            site=site_of(c, meta["text"]), replay={"entry_id": meta["id"], "cfg": cfg, "supi": supi})

            # a failing input is "known" when an open known finding matches it; the program is reported when, under every
            # variant, at least one failing input is not explained by a known finding
            unknown, known = {}, {}
            for v in variants:
                for cfg, supi in byv[v]:
                    vv = viol(cfg, supi)
                    k = match_known(report.prop, vv)
                    (known if k else unknown).setdefault(v, []).append((vv, k))
            if all(v in unknown for v in variants):
                vv = unknown[variants[0]][0][0]
                vv["unexplained_failing_inputs"] = {v: len(x) for v, x in unknown.items()}
                report.violations.append(vv)
            else:
                ks = {}
                for v in known:
                    for vv, k in known[v]:
                        ks.setdefault(k["id"], (k, vv))
                for kid, (k, vv) in ks.items():
                    report.known_hit(k, vv)
    return outcomes


def site_of(clause, text):
    """The first emitted statement that reads the unbound name as an identifier (call site of the finding)."""
    import ast
    m = re.match(r"Err: unbound name (\w+)", clause)
    if not m:
        return ""
    nm = m.group(1)
    try:
        tree = ast.parse(text)
    except SyntaxError:
        return ""
    lines = text.splitlines()
    best = None
    for n in ast.walk(tree):
        if isinstance(n, ast.Name) and n.id == nm and isinstance(n.ctx, ast.Load):
            if best is None or n.lineno < best:
                best = n.lineno
    return lines[best - 1].strip() if best else ""


def collect(idx, lines, outcomes):
    for s in tlc.printed(lines, "VIOL|"):
        parts = s.split("|", 5)
        p, cfg, var, supi, clauses = int(parts[1]), int(parts[2]), parts[3], int(parts[4]), parts[5]
        outcomes[idx[p - 1]]["fails"][(var, cfg, supi)] = clauses.split(";")


def isolate(idx, entries, wd, what, report):
    bad = {}
    # run each program alone (cheap: only after a crash)
    from concurrent.futures import ThreadPoolExecutor

    def one(i):
        bf = os.path.join(wd, "%s_iso_%d.json" % (what, i))
        json.dump({"progs": [entries[i]]}, open(bf, "w"))
        lines, stats = tlc.run("HFMachine", HF_CFG, wd, env={"HF_BATCH": bf}, workers=2, tag="%siso%d" % (what, i), timeout=900, heap="3g")
        errs = stats["errors"]
        return i, (errs[0] if errs else ("rc=%s" % stats["rc"] if stats["rc"] != 0 else None))

    with ThreadPoolExecutor(8) as ex:
        for i, msg in ex.map(one, idx):
            if msg:
                bad[i] = " ".join(msg.split())
    return bad
