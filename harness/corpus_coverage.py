"""Maintenance: which lines of the compiler do the quick-tier corpora execute?  (guides where the specification families are blind)
   /venv/bin/python harness/corpus_coverage.py [thorough]   -> per-file missing lines of /repo/teaal, sorted by missing count"""
import os
import random
import sys

sys.path.insert(0, os.path.dirname(os.path.abspath(__file__)))
import coverage  # noqa: E402

import common  # noqa: E402


def main():
    tier = sys.argv[1] if len(sys.argv) > 1 else "quick"
    cov = coverage.Coverage(source=[os.path.join(common.REPO, "teaal")], branch=True, data_file=None)
    cov.start()
    import execpipe
    import families
    import hwfamily
    import sessionpipe
    from checks import C06, C11
    from checks._exec import sample
    rng = random.Random(common.seed())
    n = ok = 0
    specs = [(sp, False) for sp in C06.corpus(tier, rng)] + [(sp, True) for sp in C11.hw_specs(tier, rng)]
    specs += [(sp, False) for sp in families.conv_systematic(tier) + families.occ_core() + families.flat_split_core() + families.double_flat_core() + families.st_conv_core()]
    specs += [(sp, False) for sp in sample(families.gen_st, rng, 60) + sample(families.gen_cascade_conv, rng, 20)]
    specs += [({"yaml": y}, "architecture:" in y) for y in sessionpipe.pool(rng).values()]
    for sp, hw in specs:
        n += 1
        try:
            execpipe.compile_text(sp["yaml"], hw=hw)
            ok += 1
        except Exception:
            pass
    cov.stop()
    print("specifications: %d, compiled: %d" % (n, ok))
    data = []
    for f in sorted(cov.get_data().measured_files()):
        _, stmts, _, missing, _ = cov.analysis2(f)
        data.append((len(missing), len(stmts), os.path.relpath(f, common.REPO), missing))
    tot_s = sum(d[1] for d in data)
    tot_m = sum(d[0] for d in data)
    print("statements %d, missed %d (%.1f%% covered)" % (tot_s, tot_m, 100.0 * (tot_s - tot_m) / max(1, tot_s)))
    for m, s, f, miss in sorted(data, reverse=True):
        if m:
            print("%4d/%4d  %s  %s" % (m, s, f, " ".join(map(str, miss))[:400]))


if __name__ == "__main__":
    main()
