"""Maintenance commands: setup (offline build = parse every module), selftest (binding/vacuity demonstrations), all."""
import glob
import os
import subprocess
import sys

from common import ROOT, SPEC


def setup(a):
    ok = True
    for f in sorted(glob.glob(os.path.join(SPEC, "*.tla"))):
        p = subprocess.run(["java", "-cp", "/opt/veriftools/tla/tla2tools.jar:/opt/veriftools/tla/CommunityModules-deps.jar", "tla2sany.SANY", f],
                           capture_output=True, text=True, cwd=SPEC)
        bad = p.returncode != 0 or "*** Errors" in p.stdout or "Fatal" in p.stdout or "Could not" in p.stdout
        print("SANY %-22s %s" % (os.path.basename(f), "FAILED" if bad else "ok"))
        if bad:
            print(p.stdout[-1500:])
            ok = False
    try:
        sys.path.insert(0, "/repo")
        import teaal  # noqa: F401
        print("teaal importable from", os.path.dirname(teaal.__file__))
    except Exception as ex:
        print("cannot import teaal:", ex)
        ok = False
    os.makedirs(os.path.join(ROOT, "evidence"), exist_ok=True)
    return 0 if ok else 2


def all(a):
    import json
    rc = 0
    for c in json.load(open(os.path.join(ROOT, "MANIFEST.json")))["checks"]:
        r = subprocess.run(c["quick_cmd" if a.tier == "quick" else "thorough_cmd"], shell=True, cwd=ROOT).returncode
        rc = max(rc, r)
    return rc


def selftest(a):
    import selftest as st
    return st.main(a)
