"""Emitted HiFiber text -> HF-IR JSON (purely syntactic).  Prototype."""
import ast, json, re, sys

BIN = {ast.Add: "+", ast.Sub: "-", ast.Mult: "*", ast.Div: "/", ast.FloorDiv: "//", ast.Mod: "%",
       ast.BitAnd: "&", ast.BitOr: "|", ast.LShift: "<<"}
CMP = {ast.Eq: "==", ast.Lt: "<", ast.In: "in", ast.NotIn: "notin"}


class Unsupported(Exception):
    pass


def E(n):
    if isinstance(n, ast.Name):
        return {"e": "name", "id": n.id}
    if isinstance(n, ast.Constant):
        v = n.value
        if isinstance(v, bool):
            return {"e": "bool", "b": v}
        if isinstance(v, int):
            return {"e": "num", "n": v, "d": 1}
        if isinstance(v, str):
            return {"e": "str", "s": v}
        if v is None:
            return {"e": "none"}
        if isinstance(v, float) and v == int(v):
            return {"e": "num", "n": int(v), "d": 1}
        raise Unsupported(repr(v))
    if isinstance(n, ast.UnaryOp) and isinstance(n.op, ast.USub):
        if isinstance(n.operand, ast.Constant) and isinstance(n.operand.value, int):
            return {"e": "num", "n": -n.operand.value, "d": 1}
        return {"e": "neg", "x": E(n.operand)}
    if isinstance(n, ast.Tuple):
        return {"e": "tuple", "elts": [E(x) for x in n.elts]}
    if isinstance(n, ast.List):
        return {"e": "list", "elts": [E(x) for x in n.elts]}
    if isinstance(n, ast.Dict):
        return {"e": "dict", "keys": [E(k) for k in n.keys], "vals": [E(v) for v in n.values]}
    if isinstance(n, ast.BinOp):
        return {"e": "bin", "op": BIN[type(n.op)], "l": E(n.left), "r": E(n.right)}
    if isinstance(n, ast.Compare):
        if len(n.ops) != 1:
            raise Unsupported("chained comparison")
        return {"e": "cmp", "op": CMP[type(n.ops[0])], "l": E(n.left), "r": E(n.comparators[0])}
    if isinstance(n, ast.Attribute):
        return {"e": "attr", "obj": E(n.value), "name": n.attr}
    if isinstance(n, ast.Call):
        return {"e": "call", "fn": E(n.func), "args": [E(a) for a in n.args],
                "kw": [{"k": k.arg, "v": E(k.value)} for k in n.keywords]}
    if isinstance(n, ast.Subscript):
        return {"e": "index", "obj": E(n.value), "key": E(n.slice)}
    if isinstance(n, ast.Lambda):
        d = {"e": "lambda", "params": [a.arg for a in n.args.args], "body": E(n.body)}
        fv, facts = ieee_facts(n)
        if facts:
            d["fv"], d["ieee"] = fv, facts
        return d
    raise Unsupported(ast.dump(n))


IEEE_BOUND = 24


def ieee_facts(lam):
    """Where IEEE-754 double evaluation (CPython's float arithmetic: trusted base) of a one-parameter arithmetic lambda differs from its exact
    rational value: the points (argument, free variables) over non-negative integers < IEEE_BOUND at which the exact value is an integer and
    the float value is not.  Only lambdas that divide by a constant can have such points.  Returns (free variable names, facts)."""
    import itertools
    from fractions import Fraction
    if len(lam.args.args) != 1 or not any(isinstance(x, ast.Div) for x in ast.walk(lam.body)):
        return [], []
    ok = (ast.BinOp, ast.UnaryOp, ast.Name, ast.Constant, ast.Add, ast.Sub, ast.Mult, ast.Div, ast.USub, ast.Load)
    if not all(isinstance(x, ok) for x in ast.walk(lam.body)):
        return [], []
    param = lam.args.args[0].arg
    fv = sorted({x.id for x in ast.walk(lam.body) if isinstance(x, ast.Name)} - {param})
    if len(fv) > 2:
        return [], []
    src = ast.unparse(lam.body)
    code = compile(ast.Expression(lam.body), "<lambda>", "eval")

    def exact(node, env):
        if isinstance(node, ast.Constant):
            return Fraction(node.value)
        if isinstance(node, ast.Name):
            return Fraction(env[node.id])
        if isinstance(node, ast.UnaryOp):
            return -exact(node.operand, env)
        a, b = exact(node.left, env), exact(node.right, env)
        return a + b if isinstance(node.op, ast.Add) else a - b if isinstance(node.op, ast.Sub) else a * b if isinstance(node.op, ast.Mult) else a / b

    facts = []
    for arg in range(IEEE_BOUND):
        for vals in itertools.product(range(IEEE_BOUND), repeat=len(fv)):
            env = dict(zip(fv, vals))
            env[param] = arg
            try:
                ex = exact(lam.body, env)
                fl = eval(code, {"__builtins__": {}}, dict(env))
            except (ZeroDivisionError, TypeError):
                continue
            if ex.denominator == 1 and isinstance(fl, float) and fl % 1 != 0:
                facts.append({"arg": arg, "fv": list(vals), "delta": 1 if Fraction(fl) > ex else -1})
    return fv, facts


def P(n):
    if isinstance(n, ast.Name):
        return {"p": "name", "id": n.id}
    if isinstance(n, ast.Tuple):
        return {"p": "tuple", "elts": [P(x) for x in n.elts]}
    raise Unsupported(ast.dump(n))


def flat(stmts, code):
    for s in stmts:
        if isinstance(s, ast.Assign):
            if len(s.targets) != 1:
                raise Unsupported("multi-target assign")
            t = s.targets[0]
            if isinstance(t, ast.Name):
                code.append({"op": "assign", "dst": t.id, "e": E(s.value)})
            elif isinstance(t, ast.Subscript):
                code.append({"op": "setitem", "obj": E(t.value), "key": E(t.slice), "e": E(s.value)})
            else:
                raise Unsupported(ast.dump(t))
        elif isinstance(s, ast.AugAssign):
            code.append({"op": "aug", "dst": E(s.target), "bop": BIN[type(s.op)], "e": E(s.value)})
        elif isinstance(s, ast.Expr):
            code.append({"op": "expr", "e": E(s.value)})
        elif isinstance(s, ast.For):
            i = len(code)
            code.append(None)
            flat(s.body, code)
            code.append({"op": "endfor", "start": i + 2})
            code[i] = {"op": "for", "tgt": P(s.target), "it": E(s.iter), "end": len(code)}
        elif isinstance(s, ast.If):
            i = len(code)
            code.append(None)
            flat(s.body, code)
            j = len(code)
            code.append(None)
            flat(s.orelse, code)
            code[i] = {"op": "if", "c": E(s.test), "else": j + 2}
            code[j] = {"op": "jump", "to": len(code) + 1}
        else:
            raise Unsupported(ast.dump(s))


def convert(text):
    code = []
    flat(ast.parse(text).body, code)
    code.append({"op": "done"})
    return code


# ---- independent reader of an Einsum expression string (for the oracle descriptor) ----
def parse_einsum(expr):
    lhs, rhs = expr.split("=", 1)
    m = re.fullmatch(r"\s*(\w+)\s*\[(.*)\]\s*", lhs)
    out = {"name": m.group(1), "idx": [x.strip() for x in m.group(2).split(",") if x.strip()]}

    def affine(s):
        terms = []
        for t in s.split("+"):
            t = t.strip()
            mm = re.fullmatch(r"(-?\s*\d+)\s*\*\s*(\w+)", t)
            if mm:
                terms.append({"c": int(mm.group(1).replace(" ", "")), "v": mm.group(2)})
            else:
                terms.append({"c": 1, "v": t})
        return terms

    def factor(s):
        s = s.strip()
        mm = re.fullmatch(r"(\w+)\s*\[(.*)\]", s)
        if mm:
            inner = mm.group(2).strip()
            return {"k": "t", "name": mm.group(1), "idx": [affine(x) for x in inner.split(",")] if inner else []}
        return {"k": "v", "name": s, "idx": []}

    def split_top(s, sep):
        parts, depth, cur = [], 0, ""
        for ch in s:
            if ch in "([":
                depth += 1
            if ch in ")]":
                depth -= 1
            if ch == sep and depth == 0:
                parts.append(cur)
                cur = ""
            else:
                cur += ch
        parts.append(cur)
        return parts

    terms = []
    for t in split_top(rhs, "+"):
        t = t.strip()
        if t.startswith("take("):
            args = split_top(t[5:-1], ",")
            terms.append({"kind": "take", "sel": int(args[-1]) + 1, "facs": [factor(a) for a in args[:-1]]})
        else:
            terms.append({"kind": "times", "sel": 0, "facs": [factor(a) for a in split_top(t, "*")]})
    return {"out": out, "terms": terms}


if __name__ == "__main__":
    print(json.dumps({"code": convert(open(sys.argv[1]).read())}))
