"""Compile one specification in a fresh interpreter (used with PYTHONHASHSEED=<seed>, optionally TEAAL_VERIF_TOPO_SEED)."""
import sys

sys.path.insert(0, sys.argv[3] if len(sys.argv) > 3 else "/repo")
from teaal.parse import Einsum, Mapping, Architecture, Bindings, Format  # noqa: E402
from teaal.trans.hifiber import HiFiber  # noqa: E402

y = open(sys.argv[1]).read()
if sys.argv[2] == "hw":
    h = HiFiber(Einsum.from_str(y), Mapping.from_str(y), Architecture.from_str(y), Bindings.from_str(y), Format.from_str(y))
else:
    h = HiFiber(Einsum.from_str(y), Mapping.from_str(y))
sys.stdout.write(str(h))
