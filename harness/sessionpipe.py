"""C15 pipeline: Session.tla histories -> real parsers / HiFiber(...) in ONE interpreter -> recorded events -> SessionTrace.tla."""
import hashlib
import json
import os

import families
import hwfamily
import tlc
from common import MachineryError

MC_CFG = """CONSTANTS Specs = {%s}
          MaxLen = %d
SPECIFICATION Spec
INVARIANT NoMutation
INVARIANT Repeatable
INVARIANT EmitHist
CHECK_DEADLOCK FALSE
"""
TRACE_CFG = "SPECIFICATION Spec\nINVARIANT Verdict\nINVARIANT Accepted\nCHECK_DEADLOCK FALSE\n"


def pool(rng):
    """Specifications covering plain, spacetime, lazy and eager buffets, cache, intersector, generated hardware."""
    p = {}
    p["gemm"] = families.goldens(["gemm"])[0]["yaml"]
    p["st"] = families.gen_st(__import__("random").Random(5))["yaml"]
    for n in ("sigma", "extensor", "gamma", "outerspace"):
        p[n] = families.accel(n)[0]
    k = 0
    while len(p) < 8 and k < 200:
        k += 1
        sp = hwfamily.gen_hw(rng)
        if "Buf" in sp["yaml"] and ("style: eager" in sp["yaml"] or k > 100):
            try:
                import execpipe
                execpipe.compile_text(sp["yaml"], hw=True)
            except Exception:
                continue
            p["hw%d" % len(p)] = sp["yaml"]
    # twins: the same tensor names and textually identical accesses, declared differently (a result keyed by tensor name or by
    # access text instead of by specification would leak from one to the other)
    conv = "einsum:\n  declaration:\n    I: [%s]\n    F: [R, S]\n    O: [P, Q]\n  expressions:\n    - O[p, q] = I[p + r, q + s] * F[r, s]\n"
    p["convHW"] = conv % "H, W" + "mapping:\n  loop-order:\n    O: [P, Q, R, S]\n"
    p["convWH"] = conv % "W, H" + "mapping:\n  loop-order:\n    O: [P, Q, R, S]\n"
    p["gemmT"] = p["gemm"].replace("A: [K, M]", "A: [M, K]")
    # format entries that leave fields to their defaults (an uncompressed rank without pbits / cbits) under payload / elem / coord bindings:
    # whatever the translator fills in must not be written into the caller's Format
    p["fmtU"] = FMT_U
    # every optional key of the mapping present (a constructor that pops instead of reads leaves the caller's Mapping poorer)
    p["stslip"] = ("einsum:\n  declaration:\n    A: [K, M]\n    B: [K, N]\n    Z: [M, N]\n  expressions:\n    - Z[m, n] = A[k, m] * B[k, n]\n"
                   "mapping:\n  loop-order:\n    Z: [M, N, K]\n  spacetime:\n    Z:\n      space: [N]\n      time: [M.coord, K.pos]\n      opt: slip\n")
    return p


FMT_U = """einsum:
  declaration:
    A: [K, M]
    B: [K]
    Z: [M]
  expressions:
  - Z[m] = A[k, m] * B[k]
mapping:
  spacetime:
    Z:
      space: []
      time: [M, K]
format:
  A:
    default:
      rank-order: [M, K]
      M:
        format: U
      K:
        format: C
        cbits: 32
        pbits: 64
  B:
    default:
      rank-order: [K]
      K:
        format: C
        pbits: 32
  Z:
    default:
      rank-order: [M]
      M:
        format: C
        cbits: 32
        pbits: 64
architecture:
  accel:
  - name: level0
    attributes:
      clock_frequency: 2048
    local:
    - name: DRAM
      class: DRAM
      attributes:
        bandwidth: 512
    subtree:
    - name: level1
      local:
      - name: L2Cache
        class: Cache
        attributes:
          width: 64
          depth: 1024
bindings:
  Z:
  - config: accel
    prefix: tmp/Z
  - component: DRAM
    bindings:
    - tensor: A
      rank: K
      type: coord
      format: default
    - tensor: A
      rank: K
      type: payload
      format: default
    - tensor: Z
      rank: M
      type: elem
      format: default
  - component: L2Cache
    bindings:
    - tensor: A
      rank: M
      type: payload
      format: default
    - tensor: B
      rank: K
      type: coord
      format: default
"""


TWINS = [("convHW", "convWH"), ("gemm", "gemmT")]


def deep(o, seen=None, depth=0):
    """Deep structural rendering of a parsed object (what 'observably equal' means here)."""
    from lark import Tree
    seen = seen if seen is not None else set()
    if isinstance(o, (str, int, float, bool, type(None))):
        return repr(o)
    if id(o) in seen or depth > 40:
        return "<cycle>"
    if isinstance(o, Tree):
        return "Tree(%s,[%s])" % (o.data, ",".join(deep(c, seen, depth + 1) for c in o.children))
    if isinstance(o, dict):
        return "{" + ",".join(sorted(deep(k, seen, depth + 1) + ":" + deep(v, seen, depth + 1) for k, v in o.items())) + "}"
    if isinstance(o, (list, tuple)):
        return "[" + ",".join(deep(x, seen, depth + 1) for x in o) + "]"
    if isinstance(o, (set, frozenset)):
        return "set(" + ",".join(sorted(deep(x, seen, depth + 1) for x in o)) + ")"
    if hasattr(o, "__dict__"):
        seen = seen | {id(o)}
        return type(o).__name__ + deep(vars(o), seen, depth + 1)
    return repr(o)


def digest(objs):
    return hashlib.sha1("|".join(deep(o) for o in objs).encode()).hexdigest()[:12]


def parse(y):
    from teaal.parse import Einsum, Mapping, Architecture, Bindings, Format
    return [Einsum.from_str(y), Mapping.from_str(y), Architecture.from_str(y), Bindings.from_str(y), Format.from_str(y)]


def replay(hist, specs):
    """Runs in this interpreter, on purpose: C15 is about what one process observes."""
    from teaal.trans.hifiber import HiFiber
    handle, evs, n = {}, [], 0
    for a in hist:
        s = a["spec"]
        if a["act"] == "parse":
            n += 1
            objs = parse(specs[s])
            handle[s] = ("o%d" % n, objs)
            evs.append({"act": "parse", "spec": s, "objs": "o%d" % n, "pre": "-", "post": digest(objs), "out": "-"})
        else:
            oid, objs = handle[s]
            pre = digest(objs)
            try:
                out = hashlib.sha1(str(HiFiber(*objs)).encode()).hexdigest()[:12]
            except Exception as ex:
                out = "EXC:" + type(ex).__name__ + ":" + str(ex)[:60]
            evs.append({"act": "compile", "spec": s, "objs": oid, "pre": pre, "post": digest(objs), "out": out})
    return evs


def fresh_refs(specs):
    """What a fresh interpreter produces for each specification alone: one subprocess per specification."""
    import subprocess
    import sys
    from concurrent.futures import ThreadPoolExecutor
    from common import REPO, ncores
    code = ("import sys, json; sys.path.insert(0, %r); sys.path.insert(0, %r); import common, sessionpipe; "
            "y = sys.stdin.read(); print('REF' + json.dumps(sessionpipe.replay([{'act': 'parse', 'spec': 's'}, {'act': 'compile', 'spec': 's'}], {'s': y})))"
            % (REPO, os.path.dirname(os.path.abspath(__file__))))

    def one(name):
        r = subprocess.run([sys.executable, "-c", code], input=specs[name], capture_output=True, text=True, timeout=600)
        line = [l for l in r.stdout.splitlines() if l.startswith("REF")]
        if r.returncode != 0 or not line:
            raise MachineryError("fresh interpreter failed for %s: %s" % (name, r.stderr[-300:]))
        evs = json.loads(line[-1][3:])
        return {"act": "ref", "spec": name, "objs": "-", "pre": "-", "post": evs[0]["post"], "out": evs[1]["out"]}

    with ThreadPoolExecutor(min(len(specs), ncores())) as ex:
        return list(ex.map(one, list(specs)))


def histories_from_tlc(wd, names, length, simulate=None, seed=0):
    cfg = MC_CFG % (", ".join('"%s"' % n for n in names), length)
    if simulate:
        lines, stats = tlc.run("MC_Session", cfg, wd, workers=1, simulate="num=%d" % simulate, depth=length + 1, seed=seed, tag="sgen%d" % length, timeout=600)
    else:
        lines, stats = tlc.run("MC_Session", cfg, wd, workers=4, tag="sgen%d" % length, timeout=900)
    if stats["errors"]:
        raise MachineryError("Session.tla: " + stats["errors"][0][:300])
    hs = {}
    for s in tlc.printed(lines, "HIST|"):
        h = json.loads(s[5:])
        hs[json.dumps(h)] = h
    return list(hs.values()), stats


def validate(traces, wd, report, what, every=False):
    """rejected: trace id -> (event index, clause) of its first rejected event (every=True: the list of all of them)."""
    bf = os.path.join(wd, "session_%s.json" % what)
    json.dump({"traces": traces}, open(bf, "w"))
    lines, stats = tlc.run("SessionTrace", TRACE_CFG, wd, env={"SESSION_TRACES": bf}, workers=4, tag=what, timeout=900)
    report.add_tlc(stats, "trace validation " + what)
    if stats["errors"]:
        raise MachineryError("SessionTrace failed: " + stats["errors"][0][:300])
    allrej = {}
    for s in tlc.printed(lines, "SESSION|"):
        _, tid, l, why = s.split("|", 3)
        allrej.setdefault(int(tid), set()).add((int(l), why))
    rejected = {t: (sorted(v) if every else min(v)) for t, v in allrej.items()}
    accepted = {int(s.split("|")[1]) for s in tlc.printed(lines, "SESSIONOK|")}
    return rejected, accepted
