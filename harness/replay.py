"""./check Cxx --replay <file>: re-run one recorded violation against /repo's current tree.

exec / scope violations are re-derived from the recorded specification (compiled again with the current compiler) on the recorded
input with the real invariants of HFMachine.tla / Scope.tla, so TLC prints an error trace; other kinds re-run the owning check's
pipeline on the recorded case.  Exit 1 if the violation is still there, 0 if it is gone."""
import json
import os

import execpipe
import hfir
import scopepipe
import tlc
from common import workdir

INVS = {"OutputCorrect": "OutputCorrect", "OutputRestored": "OutputCorrect", "WithinExtent": "WithinExtent", "NamesTruthful": "NamesTruthful",
        "InputsUnchanged": "InputsNeverModified", "RollUp": "RollUpCorrect", "OneActivityPerUpdate": "OneActivityPerUpdate", "StampsUnique": "StampsUnique"}


def replay(prop, path):
    v = json.load(open(path))
    kind = v.get("kind")
    print("replaying %s violation of %s: %s" % (kind, prop, v.get("clause")))
    if kind == "exec" and v.get("spec"):
        hw = bool((v.get("meta") or {}).get("hw"))
        try:
            e, m = execpipe.make_entry(v["spec"], [v["config"]], "replay", hw=hw)
        except Exception as ex:
            print("the current compiler rejects the specification (%s): violation gone" % type(ex).__name__)
            return 0
        names = [i["name"] for i in e["inputs"]]
        e["sups"] = [[[v["input_by_tensor"].get(n, []) for n in names]]]
        clause = v["clause"]
        inv = "ProtocolOK" if clause.startswith("Protocol") else "NoErr" if clause.startswith("Err") else INVS.get(clause, "OutputCorrect")
        cfg = "SPECIFICATION Spec\nINVARIANT %s\nCHECK_DEADLOCK FALSE\n" % inv
        with workdir("replay") as wd:
            bf = os.path.join(wd, "b.json")
            json.dump({"progs": [e]}, open(bf, "w"))
            lines, stats = tlc.run("HFMachine", cfg, wd, env={"HF_BATCH": bf}, workers=1, tag="rp", timeout=900)
        print(m["text"])
        bad = [i for i, l in enumerate(lines) if l.startswith("Error:")]
        if bad:
            print("\n".join(lines[bad[0]:bad[0] + 60]))
            return 1
        print("invariant %s holds on the recorded input now" % inv)
        return 0
    if kind == "scope" and v.get("spec"):
        try:
            text = execpipe.compile_text(v["spec"], hw=v.get("mode") == "metrics")
        except Exception as ex:
            print("the current compiler rejects the specification (%s): violation gone" % type(ex).__name__)
            return 0
        cfg = "SPECIFICATION Spec\nINVARIANT ReadsBound\nINVARIANT LoopVarsScoped\nCHECK_DEADLOCK FALSE\n"
        with workdir("replay") as wd:
            bf = os.path.join(wd, "b.json")
            json.dump({"progs": [{"code": hfir.convert(text), "user": scopepipe.user_names(v["spec"]), "protocol": False}]}, open(bf, "w"))
            lines, stats = tlc.run("Scope", cfg, wd, env={"SCOPE_BATCH": bf}, workers=1, tag="rp", timeout=600)
        print(text)
        bad = [i for i, l in enumerate(lines) if l.startswith("Error:")]
        if bad:
            print("\n".join(lines[bad[0]:bad[0] + 40]))
            return 1
        print("ReadsBound / LoopVarsScoped hold on every path now")
        return 0
    print(json.dumps({k: v[k] for k in v if k not in ("text",)}, indent=1)[:4000])
    print("(this kind of violation is replayed by re-running the check: ./check %s)" % prop)
    import importlib
    import common
    mod = importlib.import_module("checks." + prop)
    rep = common.Report(prop, "quick")
    mod.run("quick", rep)
    return 1 if rep.violations else 0
