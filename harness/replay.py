"""./check Cxx --replay <file>: re-run one recorded violation against /repo's current tree.

exec / scope violations are re-derived from the recorded specification (compiled again with the current compiler) on the recorded
input with the real invariants of HFMachine.tla / Scope.tla, so TLC prints an error trace; other kinds re-run the owning check's
pipeline on the recorded case.  Exit 1 if the violation is still there, 0 if it is gone."""
import json
import os

import execpipe
import hfir
import scopepipe
import tlc
from common import workdir

INVS = {"OutputCorrect": "OutputCorrect", "OutputRestored": "OutputCorrect", "WithinExtent": "WithinExtent", "NamesTruthful": "NamesTruthful",
        "InputsUnchanged": "InputsNeverModified", "RollUp": "RollUpCorrect", "OneActivityPerUpdate": "OneActivityPerUpdate", "StampsUnique": "StampsUnique"}


def replay(prop, path):
    v = json.load(open(path))
    kind = v.get("kind")
    print("replaying %s violation of %s: %s" % (kind, prop, v.get("clause")))
    if kind == "exec" and v.get("spec"):
        hw = bool((v.get("meta") or {}).get("hw"))
        try:
            e, m = execpipe.make_entry(v["spec"], [v["config"]], "replay", hw=hw)
        except Exception as ex:
            print("the current compiler rejects the specification (%s): violation gone" % type(ex).__name__)
            return 0
        names = [i["name"] for i in e["inputs"]]
        e["sups"] = [[[v["input_by_tensor"].get(n, []) for n in names]]]
        clause = v["clause"]
        inv = "ProtocolOK" if clause.startswith("Protocol") else "NoErr" if clause.startswith("Err") else INVS.get(clause, "OutputCorrect")
        cfg = "SPECIFICATION Spec\nINVARIANT %s\nCHECK_DEADLOCK FALSE\n" % inv
        with workdir("replay") as wd:
            bf = os.path.join(wd, "b.json")
            json.dump({"progs": [e]}, open(bf, "w"))
            lines, stats = tlc.run("HFMachine", cfg, wd, env={"HF_BATCH": bf}, workers=1, tag="rp", timeout=900)
        print(m["text"])
        bad = [i for i, l in enumerate(lines) if l.startswith("Error:")]
        if bad:
            print("\n".join(lines[bad[0]:bad[0] + 60]))
            return 1
        print("invariant %s holds on the recorded input now" % inv)
        return 0
    if kind == "scope" and v.get("spec"):
        try:
            text = execpipe.compile_text(v["spec"], hw=v.get("mode") == "metrics")
        except Exception as ex:
            print("the current compiler rejects the specification (%s): violation gone" % type(ex).__name__)
            return 0
        cfg = "SPECIFICATION Spec\nINVARIANT ReadsBound\nINVARIANT LoopVarsScoped\nCHECK_DEADLOCK FALSE\n"
        with workdir("replay") as wd:
            bf = os.path.join(wd, "b.json")
            json.dump({"progs": [{"code": hfir.convert(text), "user": scopepipe.user_names(v["spec"]), "protocol": False}]}, open(bf, "w"))
            lines, stats = tlc.run("Scope", cfg, wd, env={"SCOPE_BATCH": bf}, workers=1, tag="rp", timeout=600)
        print(text)
        bad = [i for i, l in enumerate(lines) if l.startswith("Error:")]
        if bad:
            print("\n".join(lines[bad[0]:bad[0] + 40]))
            return 1
        print("ReadsBound / LoopVarsScoped hold on every path now")
        return 0
    if kind == "tree" and v.get("spec", "").startswith("einsum:"):
        # C09: the statement tree the translator builds now vs CPython's parse of what it prints now, judged by TreeEq.tla
        import printerpipe
        import treeir
        import common
        from checks import C09
        hw = "architecture:" in v["spec"]
        try:
            h = C09.compile_obj(v["spec"], hw)
        except Exception as ex:
            print("the current compiler rejects the specification (%s): violation gone" % type(ex).__name__)
            return 0
        text = str(h)
        rep = common.Report(prop, "quick")
        with workdir("replay") as wd:
            found = printerpipe.run_treeeq([{"kind": "prog", "tree": treeir.convert(h), "text": hfir.convert(text)}], wd, rep)
        for _, _, k, why in found:
            print("statement %d: %s" % (k, why))
            if 0 < k <= len(text.splitlines()):
                print("   tree : %s" % json.dumps(treeir.convert(h)[k - 1])[:600])
                print("   text : %s" % json.dumps(hfir.convert(text)[k - 1])[:600])
        if not found:
            print("every printed statement denotes the tree that was built (TreeEq.tla)")
        return 1 if found else 0
    if kind == "session" and v.get("history"):
        # C15: the recorded history, after the compilations that preceded it in its interpreter, in ONE fresh interpreter; references from
        # fresh interpreters; judged by SessionTrace.tla
        import subprocess
        import sys
        import common
        import sessionpipe
        specs = sessionpipe.pool(__import__("random").Random(common.seed()))
        if v.get("specname") not in specs:
            specs[v.get("specname", "s")] = v["spec"]
        before = [n for n in v.get("compiled_earlier_in_this_interpreter", []) if n in specs]
        hist = [a for n in before for a in ({"act": "parse", "spec": n}, {"act": "compile", "spec": n})] + v["history"]
        code = ("import sys, json; sys.path.insert(0, %r); sys.path.insert(0, %r); import common, sessionpipe; d = json.load(sys.stdin); "
                "print('EVS' + json.dumps(sessionpipe.replay(d['hist'], d['specs'])))" % (common.REPO, os.path.dirname(os.path.abspath(__file__))))
        r = subprocess.run([sys.executable, "-c", code], input=json.dumps({"hist": hist, "specs": specs}), capture_output=True, text=True, timeout=1200)
        line = [l for l in r.stdout.splitlines() if l.startswith("EVS")]
        if not line:
            print("replay failed:", r.stderr[-400:])
            return 2
        evs = json.loads(line[-1][3:])
        names = sorted({a["spec"] for a in hist})
        refs = sessionpipe.fresh_refs({n: specs[n] for n in names})
        rep = common.Report(prop, "quick")
        with workdir("replay") as wd:
            rejected, accepted = sessionpipe.validate([refs + evs], wd, rep, "rp", every=True)
        for l, why in rejected.get(1, []):
            print("event %d %s: %s" % (l - len(refs), json.dumps(evs[l - len(refs) - 1]), why))
        if not rejected:
            print("the history is a behaviour of Session.tla now (no mutation, repeatable, equal to the fresh-interpreter references)")
        return 1 if rejected else 0
    if kind == "defaults" and v.get("explicit_spec"):
        from checks import C19
        a, b = C19.outcome(v["spec"]), C19.outcome(v["explicit_spec"])
        print("sections omitted     -> %s\ndefault written out  -> %s" % (a, b))
        return 1 if a != b else 0
    if kind == "legality" and v.get("spec"):
        from checks import C18
        o = C18.outcome(v["spec"], "architecture:" in v["spec"])
        print(v["spec"])
        print("site:", v.get("site"), " outcome now:", o)
        return 1 if o == v.get("outcome") else 0
    if kind == "compile" and v.get("spec"):
        try:
            execpipe.compile_text(v["spec"], hw="architecture:" in v["spec"])
            print("the specification compiles now")
            return 0
        except Exception as ex:
            print("still fails: %s: %s" % (type(ex).__name__, str(ex)[:200]))
            return 1
    print(json.dumps({k: v[k] for k in v if k not in ("text",)}, indent=1)[:4000])
    print("(this kind of violation is replayed by re-running the check: ./check %s)" % prop)
    import importlib
    import common
    mod = importlib.import_module("checks." + prop)
    rep = common.Report(prop, "quick")
    mod.run("quick", rep)
    return 1 if rep.violations else 0
