"""C10 / C08 pipeline: flow graphs from the public IR API (+ the env-guarded hook that logs / injects the pre-hoist order)
-> spec/Hoist.tla.  Both directions: the implementation's orders are checked by the transcription (real mode), and linear
extensions chosen by TLC (free mode) are injected into the real __hoist and compared."""
import json
import os
import random

import tlc
from common import GUARD, MachineryError

CFG = "SPECIFICATION Spec\nINVARIANT Verdict\n%sCHECK_DEADLOCK FALSE\n"


def export(y, hw, injections=0, rng=None, max_nodes=80):
    """All flow graphs of a specification (one per Einsum), with the implementation's own order and `injections`
    further random linear extensions pushed through the real __hoist.  Returns [(record, graph, ids)]."""
    os.environ[GUARD] = "1"
    import networkx  # noqa: F401
    from teaal import verif_hooks
    from teaal.ir.flow_graph import FlowGraph
    from teaal.ir.flow_nodes import EndLoopNode, LoopNode, OtherNode
    from teaal.ir.hardware import Hardware
    from teaal.ir.metrics import Metrics
    from teaal.ir.program import Program
    from teaal.parse import Einsum, Mapping, Architecture, Bindings, Format
    e, m = Einsum.from_str(y), Mapping.from_str(y)
    a, b, f = Architecture.from_str(y), Bindings.from_str(y), Format.from_str(y)
    prog = Program(e, m)
    hwo = Hardware(a, b, prog) if (hw and a.get_spec()) else None
    out = []
    for i in range(len(e.get_expressions())):
        for trial in range(injections + 1):
            prog.add_einsum(i)
            try:
                met = Metrics(prog, hwo, f) if hwo else None
                if trial > 0:
                    r2 = random.Random(rng.random())
                    verif_hooks.topo_injector = lambda g, computed, r2=r2: verif_hooks.random_linear_extension(g, r2)
                del verif_hooks.flow_log[:]
                fg = FlowGraph(prog, met, ["hoist"])
                g = fg.get_graph()
                if g.number_of_nodes() > max_nodes:
                    break
                ranks = prog.get_loop_order().get_ranks()
                ids = {n: k + 1 for k, n in enumerate(sorted(g.nodes, key=repr))}
                rec = {"n": len(ids), "edges": [[ids[u], ids[v]] for u, v in g.edges], "loops": [ids[LoopNode(r)] for r in ranks],
                       "ends": [ids[EndLoopNode(r)] for r in ranks], "body": ids[OtherNode("Body")],
                       "pre": [ids[n] for n in verif_hooks.flow_log[-1]["pre"]], "post": [ids[n] for n in fg.get_sorted()],
                       "mode": "real", "einsum": i, "trial": trial, "names": {str(v): repr(k) for k, v in ids.items()}}
                out.append(rec)
            finally:
                verif_hooks.topo_injector = None
                prog.reset()
    return out


def inject_and_hoist(y, hw, einsum, names, pre):
    """Spec -> code: push the linear extension TLC chose (ids -> node reprs) through the real FlowGraph; return post ids."""
    os.environ[GUARD] = "1"
    from teaal import verif_hooks
    from teaal.ir.flow_graph import FlowGraph
    from teaal.ir.hardware import Hardware
    from teaal.ir.metrics import Metrics
    from teaal.ir.program import Program
    from teaal.parse import Einsum, Mapping, Architecture, Bindings, Format
    e, m = Einsum.from_str(y), Mapping.from_str(y)
    a, b, f = Architecture.from_str(y), Bindings.from_str(y), Format.from_str(y)
    prog = Program(e, m)
    hwo = Hardware(a, b, prog) if (hw and a.get_spec()) else None
    prog.add_einsum(einsum)
    try:
        met = Metrics(prog, hwo, f) if hwo else None

        def inj(g, computed):
            byrepr = {repr(n): n for n in g.nodes}
            return [byrepr[names[str(k)]] for k in pre]
        verif_hooks.topo_injector = inj
        fg = FlowGraph(prog, met, ["hoist"])
        back = {v: int(k) for k, v in names.items()}
        return [back[repr(n)] for n in fg.get_sorted()]
    finally:
        verif_hooks.topo_injector = None
        prog.reset()


def run_real(records, wd, report, what="hoist-real"):
    res = tlc.run_sharded("Hoist", CFG % "", wd, records, "HOIST_BATCH", lambda gs: {"graphs": gs}, tag=what, timeout=1500, shards=2)
    bad = {}
    for idx, lines, stats in res:
        report.add_tlc(stats, what)
        if stats["errors"] or stats["timeout"]:
            raise MachineryError("Hoist.tla failed: %s" % (stats["errors"] or ["timeout"])[0][:300])
        for s in tlc.printed(lines, "HOIST|"):
            _, gid, clause = s.split("|", 2)
            bad[idx[int(gid) - 1]] = clause
    return bad


def run_free(records, wd, report, num, seed, what="hoist-free"):
    """TLC -simulate over 'free' copies of the graphs: it chooses linear extensions; returns [(record index, pre, post)] and verdicts."""
    free = [dict(r, mode="free") for r in records]
    bf = os.path.join(wd, what + ".json")
    json.dump({"graphs": free}, open(bf, "w"))
    depth = max(r["n"] for r in records) * (2 + max(len(r["loops"]) for r in records)) + 20
    lines, stats = tlc.run("Hoist", CFG % "INVARIANT EmitOrder\n", wd, env={"HOIST_BATCH": bf}, workers=1, simulate="num=%d" % num, depth=depth,
                           seed=seed, tag=what, timeout=900)
    report.add_tlc(stats, what + " (TLC chooses the linear extensions)")
    if stats["errors"]:
        raise MachineryError("Hoist.tla (free) failed: " + stats["errors"][0][:300])
    orders = {}
    for s in tlc.printed(lines, "ORDER|"):
        _, gid, js = s.split("|", 2)
        o = json.loads(js)
        orders[(int(gid) - 1, tuple(o["pre"]))] = o
    bad = {}
    for s in tlc.printed(lines, "HOIST|"):
        _, gid, clause = s.split("|", 2)
        bad[int(gid) - 1] = clause
    return [(g, o["pre"], o["post"]) for (g, _), o in orders.items()], bad
