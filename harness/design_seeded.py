"""Regenerates the table of section 13 of DESIGN.md from seeded/*/meta.json (between the markers)."""
import json
import os

ROOT = os.path.dirname(os.path.dirname(os.path.abspath(__file__)))
BEGIN, END = "<!-- seeded-table-begin -->", "<!-- seeded-table-end -->"


def main():
    rows = []
    n = missed_first = 0
    for name in sorted(os.listdir(os.path.join(ROOT, "seeded"))):
        mp = os.path.join(ROOT, "seeded", name, "meta.json")
        if not os.path.exists(mp):
            continue
        m = json.load(open(mp))
        n += 1
        missed = [k for k, v in m["checks_run"].items() if "MISSED" in v]
        missed_first += bool(missed)
        rows.append("| %s | %s | %s | %s | %s |" % (name, m["breaks_property"], m["needs_to_manifest"].replace("|", "/"), ", ".join(m["caught_by"]),
                                                  (m.get("strengthening") or "(sampling)") if missed else "— (caught as built)"))
    table = ("%s\n%d seeded changes, %d caught by the checks as they were when the change arrived, %d only after the specification family was extended.\n\n"
             "| seeded change | breaks | needs, in order to manifest | caught by (quick tier) | strengthening that was necessary |\n|---|---|---|---|---|\n" % (BEGIN, n, n - missed_first, missed_first)
             + "\n".join(rows) + "\n" + END)
    p = os.path.join(ROOT, "DESIGN.md")
    s = open(p).read()
    if BEGIN in s:
        s = s[:s.index(BEGIN)] + table + s[s.index(END) + len(END):]
    else:
        a = s.index("| seeded change | breaks | needs | caught by | strengthening that was necessary |")
        b = s.index("\n\nLessons folded back")
        s = s[:a] + table + s[b:]
    open(p, "w").write(s)
    print(n, "seeded changes;", missed_first, "needed a family extension")


if __name__ == "__main__":
    main()
