"""C16 -- spacetime display is observation-only, complete and unambiguous.
HFMachine observers: acts/upd lock-step (OneActivityPerUpdate), point arity (Err clause), StampsUnique (antecedent: levels looped
outermost-to-innermost and every loop rank stamped -- true by construction of the family and counted), and the tensors of the
program with spacetime equal the oracle's, as do those of the same specification without spacetime (SameTensors via the oracle)."""
import random

import families
from common import seed
from checks._exec import run_exec, sample


def run(tier, rep):
    rng = random.Random(seed())
    q = tier == "quick"
    st = sample(families.gen_st, rng, 50 if q else 500) + sample(families.gen_st_affine, rng, 20 if q else 150) + sample(families.gen_st_flat, rng, 20 if q else 150) + families.st_flat_core()[:: 2 if q else 1] + families.st_conv_core()[:: 2 if q else 1]
    # adding the mapping must not make the compiler fail: a specification that compiles without spacetime and raises with it
    import execpipe
    for sp in st:
        try:
            execpipe.compile_text(sp["yaml"])
        except Exception as ex:
            try:
                execpipe.compile_text(sp["no_st_yaml"])
            except Exception:
                continue
            rep.violation(dict(kind="compile", clause="Err: adding the spacetime mapping makes the compiler fail (%s: %s)" % (type(ex).__name__, str(ex)[:80]),
                               spec=sp["yaml"], text="", family=sp["family"], meta={k: v for k, v in sp.items() if k in ("lo", "coeffs")}))
    plain = [dict(sp, yaml=sp["no_st_yaml"], family="spacetime-removed", key=sp["key"] + "#plain") for sp in st]
    acc = [dict(sp, family=sp["family"] + "-spacetime") for sp in families.accel_specs(stripped=False, names=["sigma", "outerspace", "gamma"])]
    for sp in acc:
        sp["yaml"] = families.strip_sections(sp["yaml"], spacetime=False, hardware=True)
    items, outcomes = run_exec("C16", tier, rep, st + plain + acc,
                               ("Err:", "OutputCorrect", "OutputRestored", "OneActivityPerUpdate", "StampsUnique"), cap_q=30, cap_t=200, rng=rng,
                               rule="seeded Einsum/partitioning templates x every split of the loop ranks into space/time x pos/coord style x slip, each also compiled without spacetime")
    rep.cov["stamps_unique_antecedent_true"] = sum(1 for e, m in items if e["spacetime"] and e["stamped"])
    rep.cov["programs_with_spacetime"] = sum(1 for e, m in items if e["spacetime"])
