"""C04 -- affine index expressions are evaluated exactly, with or without partitioning.
Decided by HFMachine!Verdict: Err / OutputCorrect / OutputRestored / WithinExtent."""
import random

import families
from common import seed
from checks._exec import run_exec, sample


def run(tier, rep):
    rng = random.Random(seed())
    q = tier == "quick"
    specs = families.conv_systematic(tier) + [sp for sp in families.conv_mask_core() if len(sp["configs"][0]) > 3] + families.frac_follow_core() + sample(families.gen_affine_plain, rng, 20 if q else 150) + sample(families.gen_conv, rng, 10 if q else 300)
    run_exec("C04", tier, rep, specs, ("Err:", "OutputCorrect", "OutputRestored", "WithinExtent", "ShapeCovers"), cap_q=16, cap_t=120, rng=rng, dense_bias=True,
             rule="systematic 1-D family (coefficient pairs x every loop order x partitioned output rank with follower) + seeded 1-D/2-D convolution, stride, dilation, subsampling with coefficients 1-4 x legal loop orders (incl. the input's own rank) + shape partitioning "
                  "of the output rank with the input rank following; shape-consistent extents Q<=5, S<=3")
