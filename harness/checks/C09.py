"""C09 -- printed text denotes the syntax tree the compiler built.
(1) TreeEq.tla: for every compilation of the C06/C11 corpora, HiFiber(...).hifiber (statement tree) vs ast.parse(str(HiFiber(...))),
    equal after Printer!Canon, every tree-side statement Printer!Faithful;
(2) every affine index expression with coefficients -3..3 over <= 3 variables pushed through the real CoordMath / CoordAccess.build_expr;
(3) calibration: every operator tree of depth <= 2 (PrinterGen.tla) built with the real teaal.hifiber classes, printed by gen() and parsed by
    CPython: the round trip preserves the tree exactly when Printer!Faithful holds (binds the TLA+ precedence table to the real grammar and printer)."""
import ast
import itertools
import random

import hfir
import printerpipe
import treeir
from common import seed, workdir
from checks import C06, C11


def compile_obj(y, hw):
    from teaal.parse import Einsum, Mapping, Architecture, Bindings, Format
    from teaal.trans.hifiber import HiFiber
    if hw:
        return HiFiber(Einsum.from_str(y), Mapping.from_str(y), Architecture.from_str(y), Bindings.from_str(y), Format.from_str(y))
    return HiFiber(Einsum.from_str(y), Mapping.from_str(y))


def affine_exprs(tier, rng):
    """HiFiber expression trees the coordinate-expression builder produces from affine index expressions."""
    from sympy import Symbol, Rational
    from teaal.trans.coord_access import CoordAccess
    out = []
    vs = [Symbol(v) for v in "pqs"]
    coefs = [-3, -2, -1, 1, 2, 3]
    combos = [c for c in itertools.product([0] + coefs, repeat=3) if any(c)]
    if tier == "quick":
        combos = combos[::4]
    for c in combos:
        e = sum(k * v for k, v in zip(c, vs))
        for const in (0, 2, -1):
            exprs = [e + const]
            # the expression solved for one of its ranks (what isolate_rank hands to build_expr): rational coefficients
            for k, v in zip(c, vs):
                if k:
                    w = Symbol("w")
                    exprs.append((w - (e - k * v) - const) / k)
            for ex in exprs:
                try:
                    out.append(CoordAccess.build_expr(ex))
                except Exception:
                    pass
    return out


def run(tier, rep):
    rng = random.Random(seed() + 9)
    q = tier == "quick"
    progs, meta = [], []
    specs = [(sp, False) for sp in C06.corpus(tier, rng)] + [(sp, True) for sp in C11.hw_specs(tier, rng)]
    for sp, hw in specs:
        try:
            h = compile_obj(sp["yaml"], hw)
            text = str(h)
        except Exception:
            rep.cov["rejected_by_compiler"] += 1
            continue
        try:
            tcode = hfir.convert(text)
        except SyntaxError as ex:
            rep.violation(dict(kind="tree", clause="emitted text is not Python: %s" % ex, spec=sp["yaml"], text=text, family=sp["family"]))
            continue
        progs.append({"kind": "prog", "tree": treeir.convert(h), "text": tcode})
        meta.append((sp, text))
    nprog = len(progs)
    # (2) coordinate expressions
    exprs = affine_exprs(tier, rng)
    tr, tx = [], []
    for ex in exprs:
        src = ex.gen()
        try:
            parsed = hfir.E(ast.parse(src, mode="eval").body)
        except (SyntaxError, hfir.Unsupported):
            parsed = {"e": "unparsable", "src": src}
        tr.append({"op": "expr", "e": treeir.E(ex)})
        tx.append({"op": "expr", "e": parsed})
    for i in range(0, len(tr), 400):
        progs.append({"kind": "prog", "tree": tr[i:i + 400], "text": tx[i:i + 400]})
        meta.append(({"yaml": "(affine index expressions through CoordAccess.build_expr)", "family": "coord-expr"}, "\n".join(e.gen() for e in exprs[i:i + 400])))
    with workdir("C09") as wd:
        calib, ncal = printerpipe.calibration_batch(wd, 2, printerpipe.QUICK_OPS if q else printerpipe.ALL_OPS, rep)
        ncalib0 = len(progs)
        progs += calib
        findings = printerpipe.run_treeeq(progs, wd, rep, shards=2 if q else 8, timeout=1500 if q else 5400)
    for kind, p, k, why in findings:
        if kind == "CALIB":
            rep.notes.append("calibration: " + why)
            continue
        if p >= ncalib0:
            ent = progs[p]
            rep.violation(dict(kind="tree", clause=why, spec="(operator tree from PrinterGen.tla)", family="printer-calibration", text="",
                               tree=ent["tree"][k - 1], parsed=ent["text"][k - 1]))
            continue
        sp, text = meta[p]
        ent = progs[p]
        st = ent["tree"][k - 1] if 0 < k <= len(ent["tree"]) else None
        rep.violation(dict(kind="tree", clause=why, spec=sp["yaml"], text=text, family=sp["family"], statement_index=k, tree_statement=st,
                           text_statement=ent["text"][k - 1] if 0 < k <= len(ent["text"]) else None,
                           site=(text.splitlines()[0] if sp["family"] == "coord-expr" else "")))
    rep.cov["programs"] = nprog
    rep.cov["traces_validated_against_impl"] = nprog + len(exprs) + ncal
    rep.cov["evaluations"] = nprog + len(exprs) + ncal
    rep.cov["distinct_nontrivial"] = len({t for _, t in meta})
    rep.cov["coordinate_expressions"] = len(exprs)
    rep.cov["operator_trees_round_tripped"] = ncal
    rep.cov["rule"] = "every compilation of the C06 corpus (plain, spacetime) and C11 corpus (metrics) + affine expressions with coefficients -3..3 through CoordAccess.build_expr + all operator trees of depth <= 2"
    if meta:
        rep.sample({"spec": meta[0][0]["yaml"], "emitted": meta[0][1][:400]})
    if exprs:
        rep.sample({"coordinate_expression": exprs[len(exprs) // 2].gen()})
