"""C19 -- omitted mapping means the canonical default.
SpecSpace.tla enumerates/samples Einsums x partitionings and computes the default (DefaultLoopOrder, declared rank order); each
specification is compiled with the sections omitted and with the default written out (loop-order, rank-order, both); Defaults.tla
requires identical outcomes."""
import hashlib
import json
import os

import execpipe
import render
import tlc
from common import MachineryError, seed, workdir

CFG = "SPECIFICATION Spec\nINVARIANT Verdict\nCHECK_DEADLOCK FALSE\n"


# (declaration, expressions, explicit non-default loop orders given for ONE Einsum at a time, default loop order of every Einsum)
CASCADES = [
    ({"A": ["K", "M"], "B": ["K", "N"], "T": ["K", "M", "N"], "Z": ["M", "N"]}, ["T[k, m, n] = A[k, m] * B[k, n]", "Z[m, n] = T[k, m, n]"],
     {"T": ["N", "K", "M"], "Z": ["N", "M", "K"]}, {"T": ["K", "M", "N"], "Z": ["M", "N", "K"]}),
    ({"A": ["K", "M"], "B": ["N"], "T": ["M"], "Z": ["M", "N"]}, ["T[m] = A[k, m]", "Z[m, n] = T[m] * B[n]"],
     {"T": ["K", "M"], "Z": ["N", "M"]}, {"T": ["M", "K"], "Z": ["M", "N"]}),
    ({"A": ["M"], "B": ["M"], "C": ["M", "N"], "T": ["M"], "S": ["M", "N"], "Z": ["N"]}, ["T[m] = A[m] * B[m]", "S[m, n] = T[m] * C[m, n]", "Z[n] = S[m, n]"],
     {"S": ["N", "M"], "Z": ["M", "N"]}, {"T": ["M"], "S": ["M", "N"], "Z": ["N", "M"]}),
]


def outcome(y):
    try:
        return hashlib.sha1(execpipe.compile_text(y).encode()).hexdigest()[:12]
    except Exception as ex:
        return "EXC:" + type(ex).__name__


def run(tier, rep):
    q = tier == "quick"
    with workdir("C19") as wd:
        specs = render.generate(wd, rep, num=None, tag="ex", MaxVars=2, MaxTerms=1, MaxFacs=2, AllowAffine="TRUE", AllowTake="TRUE", AllowPart="FALSE" if q else "TRUE", MaxStack=1)
        n_ex = len(specs)
        specs += render.generate(wd, rep, num=400 if q else 4000, seed=seed(), tag="sim")
        specs += render.generate(wd, rep, num=150 if q else 1500, seed=seed() + 1, tag="sim4", MaxVars=4, MaxTerms=3, MaxStack=3)
        # flattening: a pair replaced in place when adjacent in the listed order, innermost otherwise (exhaustive for <= 3 variables, one product term
        # of <= 2 tensors; simulated with shape / occupancy stacks on the other ranks)
        flat = render.generate(wd, rep, num=None, tag="exflat", MaxVars=3, MaxTerms=1, MaxFacs=2, AllowAffine="FALSE", AllowTake="FALSE", AllowPart="FALSE", MaxStack=0, AllowFlat="TRUE")
        flat += render.generate(wd, rep, num=300 if q else 3000, seed=seed() + 2, tag="simflat", MaxVars=4, MaxTerms=2, MaxFacs=3, AllowAffine="FALSE", MaxStack=1, AllowFlat="TRUE")
        flat = [sp for sp in flat if any(st and st[0]["k"] == "flatten" for st in sp["stacks"])]
        rep.cov["specifications_with_flattening"] = len(flat)
        specs += flat
        # the default does not depend on the generator's own ro/lo choice: one record per (Einsum, partitioning)
        seen, recs, keep = set(), [], []
        for sp in specs:
            key = json.dumps([sp["out"], sp["terms"], sp["stacks"]], sort_keys=True)
            if key in seen:
                continue
            seen.add(key)
            base = render.to_yaml(sp, loop="omit", rank_order="omit")
            variants = [("everything omitted", base),
                        ("loop-order written out", render.to_yaml(sp, loop="default", rank_order="omit")),
                        ("rank-order written out", render.to_yaml(sp, loop="omit", rank_order="default")),
                        ("loop-order and rank-order written out", render.to_yaml(sp, loop="default", rank_order="default"))]
            keep.append((sp, variants))
        # cascades: the default of one Einsum does not depend on what the mapping says about another (an explicit, non-default loop order /
        # rank order / partitioning given for an EARLIER or LATER Einsum only); defaults of these fixed cascades by the rule of the property
        for decl, exprs, given, dflts in CASCADES:
            d = "einsum:\n  declaration:\n" + "".join("    %s: [%s]\n" % (t, ", ".join(r)) for t, r in decl.items()) + "  expressions:\n" + "".join("    - %s\n" % e for e in exprs)
            for who in given:
                rest = {o: lo for o, lo in dflts.items() if o != who}
                lo_given = "    %s: [%s]\n" % (who, ", ".join(given[who]))
                base = d + "mapping:\n  loop-order:\n" + lo_given
                variants = [("everything omitted", base)]
                for o, lo in rest.items():
                    variants.append(("loop-order written out", base + "    %s: [%s]\n" % (o, ", ".join(lo))))
                variants.append(("loop-order and rank-order written out", base + "".join("    %s: [%s]\n" % (o, ", ".join(lo)) for o, lo in rest.items())))
                while len(variants) < 4:
                    variants.append(variants[-1])
                keep.append(({"dflt": dflts, "first": given}, variants[:4]))
        from concurrent.futures import ProcessPoolExecutor
        from common import ncores
        with ProcessPoolExecutor(max(2, ncores() - 2)) as ex:
            outs_all = list(ex.map(outcome, [y for _, vs in keep for _, y in vs], chunksize=32))
        kept2 = []
        for i, (sp, variants) in enumerate(keep):
            outs = [{"what": w, "out": o} for (w, _), o in zip(variants, outs_all[4 * i:4 * i + 4])]
            if all(o["out"].startswith("EXC") for o in outs):
                rep.cov["rejected_by_compiler"] += 1
                continue
            recs.append({"variants": outs})
            kept2.append((sp, variants))
        keep = kept2
        bf = os.path.join(wd, "defaults.json")
        json.dump({"recs": recs}, open(bf, "w"))
        lines, stats = tlc.run("Defaults", CFG, wd, env={"DEFAULTS_BATCH": bf}, workers=4, tag="dflt", timeout=600)
        rep.add_tlc(stats, "Defaults.tla")
        if stats["errors"]:
            raise MachineryError("Defaults.tla failed: " + stats["errors"][0][:300])
        for s in tlc.printed(lines, "DEFAULTS|"):
            _, r, what = s.split("|", 2)
            sp, variants = keep[int(r) - 1]
            y_explicit = dict(variants)[what]
            rep.violation(dict(kind="defaults", clause="omitted differs from explicit default: " + what, spec=variants[0][1], explicit_spec=y_explicit,
                               text="", family="defaults", default_loop_order=sp["dflt"], first_appearance=sp["first"], outcomes=recs[int(r) - 1]))
    rep.cov["programs"] = len(recs)
    rep.cov["evaluations"] = 4 * len(recs)
    rep.cov["traces_validated_against_impl"] = 4 * len(recs)
    rep.cov["distinct_nontrivial"] = len(recs)
    rep.cov["exhaustive_sub_bound"] = {"MaxVars": 2, "MaxTerms": 1, "MaxFacs": 2, "MaxStack": 0 if q else 1, "specifications": n_ex}
    rep.cov["rule"] = "distinct (Einsum, partitioning) pairs from SpecSpace.tla: exhaustive for <= 2 variables / 1 term / 1 partition level, seeded simulation for <= 3-4 variables, <= 3 terms, stacks <= 3"
    for sp, variants in keep[:1] + keep[-1:]:
        rep.sample({"omitted": variants[0][1], "explicit": variants[3][1], "default_loop_order": sp["dflt"]})
