"""C07 -- tensor variable names tell the truth and inputs are never modified."""
import random

import families
from common import seed
from checks._exec import run_exec, sample


def run(tier, rep):
    rng = random.Random(seed() + 7)
    q = tier == "quick"
    n = 14 if q else 150
    specs = families.goldens() + sample(families.gen_c01, rng, n) + sample(families.gen_shape, rng, n) + sample(families.gen_occ, rng, n) \
        + sample(families.gen_flat, rng, 3 * n) + sample(families.gen_cascade, rng, n) \
        + sample(families.renamed(families.gen_shape), rng, n) + sample(families.renamed(families.gen_occ), rng, n // 2) + sample(families.renamed(families.gen_flat, "K", "I"), rng, n // 2) + sample(families.gen_affine_plain, rng, n // 2)
    # set-iteration order decides which partitioning of a tensor is applied first: the deterministic partitioning cores are compiled in
    # fresh interpreters under several string-hash seeds; every distinct text is one more program
    from checks import C08
    from common import workdir
    core = families.double_flat_core() + families.flat_split_core()[::2] + families.occ_flat_core()[::3]
    with workdir("C07v") as wd:
        res = C08.compile_variants(core, wd, 8 if q else 32, 0)          # real string-hash seeds only: C07 does not quantify over schedules (DESIGN 12.1)
    texts = {}
    for k, tag, rc, out, err in res:
        if rc == 0:
            texts.setdefault((k, out), tag)
    specs += [dict(core[k], text=t, key="%s@%s" % (core[k]["key"], tag), variant=tag) for (k, t), tag in sorted(texts.items(), key=lambda x: (x[0][0], x[1]))]
    rep.cov["seed_variants_of_partitioning_cores"] = len(texts)
    run_exec("C07", tier, rep, specs, ("NamesTruthful", "InputsUnchanged", "OutputRestored", "Err:"), cap_q=24, cap_t=120, rng=rng,
             rule="union of the C01-C05 families (own seed offset)")
