"""C07 -- tensor variable names tell the truth and inputs are never modified."""
import random

import families
from common import seed
from checks._exec import run_exec, sample


def run(tier, rep):
    rng = random.Random(seed() + 7)
    q = tier == "quick"
    n = 14 if q else 150
    specs = families.goldens() + sample(families.gen_c01, rng, n) + sample(families.gen_shape, rng, n) + sample(families.gen_occ, rng, n) \
        + sample(families.gen_flat, rng, 3 * n) + sample(families.gen_cascade, rng, n) \
        + sample(families.renamed(families.gen_shape), rng, n) + sample(families.renamed(families.gen_occ), rng, n // 2) + sample(families.renamed(families.gen_flat, "K", "I"), rng, n // 2) + sample(families.gen_affine_plain, rng, n // 2)
    run_exec("C07", tier, rep, specs, ("NamesTruthful", "InputsUnchanged", "OutputRestored", "Err: update writes into an input"), cap_q=24, cap_t=120, rng=rng,
             rule="union of the C01-C05 families (own seed offset)")
