"""C03 -- occupancy partitioning and flattening never change the result (product Einsums).
Decided by HFMachine!Verdict (Err / OutputCorrect / OutputRestored); splitNonUniform's unspecified case is a variant."""
import random

import families
import render
from common import seed, workdir
from checks._exec import run_exec, sample


def run(tier, rep):
    rng = random.Random(seed())
    with workdir("C03ss") as wd:
        ss = render.exec_specs(wd, rep, 300 if tier == "quick" else 3000, seed(), want="occupancy")[: (40 if tier == "quick" else 600)]
    q = tier == "quick"
    specs = families.accel_specs(stripped=True) + families.occ_core() + families.flat_split_core() + families.occ_flat_core() + sample(families.gen_occ, rng, 40 if q else 400) + sample(families.gen_flat, rng, 30 if q else 300) + sample(families.gen_flat3, rng, 8 if q else 60) + ss
    run_exec("C03", tier, rep, specs, ("Err:", "OutputCorrect", "OutputRestored"), cap_q=36, cap_t=250, rng=rng, dense_bias=True,
             rule="sigma/extensor/outerspace/gamma/demo with architecture stripped and sizes scaled + seeded product Einsums x leader x occupancy stacks (1-2 levels, alone or beneath a shape split) "
                  "+ flatten tuples (optionally of a shape-split level) with occupancy of the flattened rank, loop orders keeping each rank's levels outermost-to-innermost; inputs include nearly dense tensors")
