"""Shared driver of the execution properties: specifications -> compiler -> HFMachine, with per-property clause sets."""
import random

import execpipe
from common import seed, workdir

REJECT = (Exception,)


def build(specs, tier, rng, rep, cap=None, hw=False, dense_bias=False, prefix=""):
    items = []
    for k, sp in enumerate(specs):
        extra = {k2: v for k2, v in sp.items() if k2 not in ("yaml", "configs", "family", "text")}
        try:
            e, m = execpipe.make_entry(sp["yaml"], sp["configs"], "%s%s#%d" % (prefix, sp["family"], k), tier=tier, rng=rng,
                                       cap=sp.get("cap", cap), hw=sp.get("hw", hw), dense_bias=sp.get("dense_bias", dense_bias),
                                       family=sp["family"], extra=extra, text=sp.get("text"))
        except execpipe.NotPython as ex:
            rep.violation(dict(kind="compile", clause="Err: emitted text is not Python: " + str(ex), spec=sp["yaml"], text=ex.text, family=sp["family"]))
            continue
        except REJECT as ex:
            rep.cov["rejected_by_compiler"] += 1
            rj = rep.cov.setdefault("rejections", {})
            rj[type(ex).__name__] = rj.get(type(ex).__name__, 0) + 1
            continue
        items.append((e, m))
    return items


def sample(gen, rng, n, seen=None, tries=50):
    seen = set() if seen is None else seen
    out = []
    t = 0
    while len(out) < n and t < n * tries:
        t += 1
        sp = gen(rng)
        if sp is None or sp["key"] in seen:
            continue
        seen.add(sp["key"])
        out.append(sp)
    return out


def run_exec(prop, tier, rep, specs, clauses, cap_q=40, cap_t=300, rule="", dense_bias=False, rng=None, shards=None):
    rng = rng or random.Random(seed())
    items = build(specs, tier, rng, rep, cap=cap_q if tier == "quick" else cap_t, dense_bias=dense_bias)

    def relevant(c):
        return c.startswith(tuple(clauses))

    with workdir(prop) as wd:
        outcomes = execpipe.run_batch(items, rep, relevant, wd, prop.lower(), shards=shards)
    rep.cov["distinct_nontrivial"] = len({m["text"] for _, m in items})
    rep.cov["rule"] = rule + "; distinct = distinct emitted program texts (every one is run on its whole listed input space)"
    # which HiFiber operations the corpus exercises (from the HF-IR of the emitted programs): vacuity control per action of HFMachine
    ops = {}

    def walk(x):
        if isinstance(x, dict):
            if x.get("e") == "call":
                fn = x["fn"]
                nm = fn.get("name") if fn.get("e") == "attr" else fn.get("id")
                if nm:
                    ops[nm] = ops.get(nm, 0) + 1
            if x.get("e") == "bin" and x.get("op") in ("&", "|", "<<"):
                ops[x["op"]] = ops.get(x["op"], 0) + 1
            if x.get("op") == "aug":
                ops["update " + x.get("bop", "") + "="] = ops.get("update " + x.get("bop", "") + "=", 0) + 1
            for v in x.values():
                walk(v)
        elif isinstance(x, list):
            for v in x:
                walk(v)

    for e, _ in items:
        walk(e["code"])
    rep.cov["operations_in_corpus"] = dict(sorted(ops.items()))
    fams = {}
    for _, m in items:
        fams[m["family"]] = fams.get(m["family"], 0) + 1
    rep.cov["families"] = fams
    pick = items[:1] + items[len(items) // 2:len(items) // 2 + 1] + items[-1:]
    for e, m in pick:
        rep.sample({"family": m["family"], "spec": m["yaml"], "emitted": m["text"][:700], "inputs_tried": m["n_inputs"], "variants": m["variants"],
                    "extents": e["configs"], "example_input_support": e["sups"][0][min(5, len(e["sups"][0]) - 1)]})
    rep.assumptions += ["A1-A10 of DESIGN 7.2 (reference reading of the HiFiber API)", "bounded extents and the listed input space",
                        "rejections by the compiler are not judged here (C18 judges them)"]
    return items, outcomes
