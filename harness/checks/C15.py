"""C15 -- compilation does not mutate its inputs and is repeatable.
Session.tla (NoMutation, Repeatable) model-checked; its behaviours (parse / compile histories over a pool of specifications,
fresh or reused objects) are replayed with the real parsers and HiFiber(...), each history inside ONE interpreter, and the
recorded events (deep digests of the five parsed objects before/after, digest of the emitted text) are validated by SessionTrace.tla."""
import random
from concurrent.futures import ProcessPoolExecutor

import sessionpipe
from common import MachineryError, ncores, seed, workdir

_POOL = None


def _replay_chunk(args):
    """One interpreter replays its histories one after the other (earlier histories are "unrelated compilations"): ONE trace, each
    event tagged with the history it belongs to, object-set ids made unique per history."""
    hists, specs = args
    out = []
    for i, h in enumerate(hists):
        for e in sessionpipe.replay(h, specs):
            out.append(dict(e, objs="h%d_%s" % (i, e["objs"]), h=i))
    return out


def run(tier, rep):
    q = tier == "quick"
    rng = random.Random(seed())
    specs = sessionpipe.pool(rng)
    names = list(specs)
    with workdir("C15") as wd:
        hists, st = sessionpipe.histories_from_tlc(wd, names, 4)
        rep.add_tlc(st, "Session.tla exhaustive, MaxLen=4 (NoMutation, Repeatable) + history generation")
        exhaustive = len(hists)
        if not q:
            hs, st5 = sessionpipe.histories_from_tlc(wd, names, 6, simulate=400, seed=seed())
            rep.add_tlc(st5, "history generation (-simulate, length 6)")
            rng.shuffle(hs)
            hists += hs[:1500]
        else:
            rng.shuffle(hists)
            core = [h for h in hists if len({a["spec"] for a in h}) == 1]          # same specification compiled twice (reuse / fresh)
            tw = {frozenset(t) for t in sessionpipe.TWINS}
            core += [h for h in hists if frozenset(a["spec"] for a in h) in tw and len(h) == 4 and [a["act"] for a in h] == ["parse", "compile"] * 2]
            hists = core + [h for h in hists if h not in core][:160 - len(core)]
        nproc = max(2, ncores() - 2)
        chunks = [hists[i::nproc] for i in range(nproc)]
        with ProcessPoolExecutor(nproc) as ex:
            res = list(ex.map(_replay_chunk, [(c, specs) for c in chunks]))
        refs = sessionpipe.fresh_refs(specs)
        traces = [refs + r for r in res if r]
        chunks = [c for c, r in zip(chunks, res) if r]
        src = [h for c in chunks for h in c]
        rejected, accepted = sessionpipe.validate(traces, wd, rep, "replay", every=True)
        if len(accepted) + len(rejected) != len(traces):
            raise MachineryError("trace validation lost traces")
    rep.cov["traces_validated_against_impl"] = len(src)
    rep.cov["interpreters"] = len(traces)
    rep.cov["evaluations"] = sum(1 for t in traces for e in t if e["act"] == "compile")
    rep.cov["distinct_nontrivial"] = len({str(h) for h in src})
    rep.cov["histories_exhaustive_len4"] = exhaustive
    rep.cov["pool"] = names
    rep.cov["rule"] = "histories = Session.tla behaviours ending in a compile with >= 2 compiles; pool of 11 specifications (plain, spacetime, sigma, extensor, gamma, outerspace, 2 generated buffet architectures, twins: same tensor names and access texts declared differently); each interpreter's whole event sequence is one trace, started by reference events from fresh interpreters"
    for tid, evs in sorted(rejected.items()):
        for l, why in evs:
            ev = traces[tid - 1][l - 1]
            before = [e["spec"] for e in traces[tid - 1][len(refs):l - 1] if e["act"] == "compile"]
            rep.violation(dict(kind="session", clause=why, history=chunks[tid - 1][ev["h"]], event=ev, spec=specs[ev["spec"]], text="", family="session",
                               specname=ev["spec"], compiled_earlier_in_this_interpreter=before[-12:],
                               reference="the result of a fresh interpreter that parses and compiles only this specification"))
    if traces:
        rep.sample({"history": chunks[0][0], "recorded": [e for e in traces[0][len(refs):] if e["h"] == 0], "reference_events": refs[:2]})
    rep.assumptions += ["'observably equal' = equal deep structural rendering of the objects' attribute dictionaries (lark trees, dicts, lists)"]
