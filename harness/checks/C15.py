"""C15 -- compilation does not mutate its inputs and is repeatable.
Session.tla (NoMutation, Repeatable) model-checked; its behaviours (parse / compile histories over a pool of specifications,
fresh or reused objects) are replayed with the real parsers and HiFiber(...), each history inside ONE interpreter, and the
recorded events (deep digests of the five parsed objects before/after, digest of the emitted text) are validated by SessionTrace.tla."""
import random
from concurrent.futures import ProcessPoolExecutor

import sessionpipe
from common import MachineryError, ncores, seed, workdir

_POOL = None


def _replay_chunk(args):
    hists, specs = args
    return [sessionpipe.replay(h, specs) for h in hists]        # sequentially in one process: earlier histories are "unrelated compilations"


def run(tier, rep):
    q = tier == "quick"
    rng = random.Random(seed())
    specs = sessionpipe.pool(rng)
    names = list(specs)
    with workdir("C15") as wd:
        hists, st = sessionpipe.histories_from_tlc(wd, names, 4)
        rep.add_tlc(st, "Session.tla exhaustive, MaxLen=4 (NoMutation, Repeatable) + history generation")
        exhaustive = len(hists)
        if not q:
            hs, st5 = sessionpipe.histories_from_tlc(wd, names, 6, simulate=400, seed=seed())
            rep.add_tlc(st5, "history generation (-simulate, length 6)")
            rng.shuffle(hs)
            hists += hs[:1500]
        else:
            rng.shuffle(hists)
            core = [h for h in hists if len({a["spec"] for a in h}) == 1]          # same specification compiled twice (reuse / fresh)
            hists = core + [h for h in hists if h not in core][:160 - len(core)]
        nproc = max(2, ncores() - 2)
        chunks = [hists[i::nproc] for i in range(nproc)]
        with ProcessPoolExecutor(nproc) as ex:
            res = list(ex.map(_replay_chunk, [(c, specs) for c in chunks]))
        traces, src = [], []
        for c, r in zip(chunks, res):
            traces += r
            src += c
        rejected, accepted = sessionpipe.validate(traces, wd, rep, "replay")
        if len(accepted) + len(rejected) != len(traces):
            raise MachineryError("trace validation lost traces")
    rep.cov["traces_validated_against_impl"] = len(traces)
    rep.cov["evaluations"] = sum(1 for t in traces for e in t if e["act"] == "compile")
    rep.cov["distinct_nontrivial"] = len({str(h) for h in src})
    rep.cov["histories_exhaustive_len4"] = exhaustive
    rep.cov["pool"] = names
    rep.cov["rule"] = "histories = Session.tla behaviours ending in a compile with >= 2 compiles; pool of 8 specifications (plain, spacetime, sigma, extensor, gamma, outerspace, 2 generated buffet architectures)"
    for tid, (l, why) in sorted(rejected.items()):
        ev = traces[tid - 1][l - 1]
        rep.violation(dict(kind="session", clause=why, history=src[tid - 1], event=ev, spec=specs[ev["spec"]], text="", family="session", specname=ev["spec"]))
    for t, h in list(zip(traces, src))[:2]:
        rep.sample({"history": h, "recorded": t})
    rep.assumptions += ["'observably equal' = equal deep structural rendering of the objects' attribute dictionaries (lark trees, dicts, lists)"]
