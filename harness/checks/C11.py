"""C11 -- metrics instrumentation does not change what is computed.
Every specification is compiled with and without architecture/bindings/format; both programs run on HFMachine on the same
inputs; both must equal the Einsum oracle (hence each other)."""
import random

import families
import hwfamily
from common import seed
from checks._exec import run_exec, sample

CLAUSES = ("Err:", "OutputCorrect", "OutputRestored", "ShapeCovers")


def hw_specs(tier, rng, n=None):
    q = tier == "quick"
    acc = []
    for sp in families.accel_specs(stripped=False, names=["sigma", "extensor", "outerspace", "gamma"]):
        acc.append(dict(sp, hw=True, family=sp["family"] + "-metrics", plain_yaml=families.strip_sections(sp["yaml"], spacetime=False)))
    return acc + hwfamily.hw_core() + sample(hwfamily.gen_hw, rng, n or (120 if q else 800)) + sample(hwfamily.gen_hw_cascade, rng, (n or 100) // 5 if q else 150) + sample(hwfamily.gen_hw_merger_cascade, rng, 16 if q else 150)


def run(tier, rep):
    rng = random.Random(seed())
    hw = hw_specs(tier, rng)
    import execpipe
    ok = []
    for sp in hw:                     # the plain twin is only of interest for specifications the compiler accepts in metrics mode
        try:
            sp = dict(sp, text=execpipe.compile_text(sp["yaml"], hw=True))
        except Exception:
            rep.cov["rejected_by_compiler"] += 1
            continue
        ok.append(sp)
    hw = ok
    seen, plain = set(), []
    for sp in hw:
        if sp["plain_yaml"] not in seen:
            seen.add(sp["plain_yaml"])
            plain.append(dict(sp, yaml=sp["plain_yaml"], text=None, hw=False, family=sp["family"] + "-plain", key=sp["key"] + "#plain"))
    run_exec("C11", tier, rep, hw + plain, CLAUSES, cap_q=24, cap_t=150, rng=rng,
             rule="the repository's accelerator specifications (numbers scaled) + seeded Einsum templates x architecture/binding/format option vectors "
                  "(DRAM, buffet lazy/eager with evict-on, cache, each intersector type and leader, compute mul/add, sequencer), each also compiled without hardware")
