"""C18 -- stated mapping-legality rules are enforced for every instance.
Legality.tla enumerates, for each of the 15 stated rules, the violation injected at every site of its base specifications (+ the
legal bases and legal neighbours as a vacuity guard); each instance is rendered to YAML and given to the real parsers + HiFiber(...);
LegalityTrace.tla judges the outcomes: Compiled => Legal, and the rejection must be a ValueError."""
import json
import os

import tlc
from common import MachineryError, workdir

GEN_CFG = "SPECIFICATION Spec\nINVARIANT Emit\nCHECK_DEADLOCK FALSE\n"
CFG = "SPECIFICATION Spec\nINVARIANT Verdict\nCHECK_DEADLOCK FALSE\n"


def acc(a):
    if a["idx"] == ["$"]:
        return a["name"]
    return "%s[%s]" % (a["name"], ", ".join(a["idx"]))


def render(sp):
    y = "einsum:\n  declaration:\n" + "".join("    %s: [%s]\n" % (d["name"], ", ".join(d["ranks"])) for d in sp["decl"])
    y += "  expressions:\n"
    for e in sp["exprs"]:
        y += "    - %s = %s\n" % (acc(e["out"]), " + ".join(" * ".join(acc(f) for f in t) for t in e["terms"]))
    y += "mapping:\n"
    if sp["part"]:
        y += "  partitioning:\n"
        for p in sp["part"]:
            y += "    %s:\n" % p["einsum"]
            for en in p["entries"]:
                key = en["ranks"][0] if len(en["ranks"]) == 1 else "(%s)" % ", ".join(en["ranks"])
                y += "      %s: [%s]\n" % (key, ", ".join(en["dirs"]))
    if sp["lo"]:
        y += "  loop-order:\n" + "".join("    %s: [%s]\n" % (l["einsum"], ", ".join(l["ranks"])) for l in sp["lo"])
    if sp["hw"] != "none":
        y += "  spacetime:\n"
        for e in sp["exprs"]:
            vs = []
            for t in e["terms"]:
                for f in t:
                    for ix in f["idx"]:
                        for v in ix.replace("+", " ").replace("*", " ").split():
                            if v.isalpha() and v.upper() not in vs:
                                vs.append(v.upper())
            order = [v.upper() for v in e["out"]["idx"]] + [v for v in vs if v.lower() not in e["out"]["idx"]]
            y += "    %s:\n      space: []\n      time: [%s]\n" % (e["out"]["name"], ", ".join(order))
        y += "architecture:\n  Accel:\n  - name: System\n    attributes:\n      clock_frequency: 3\n    local:\n    - name: FPMul\n      class: compute\n      attributes:\n        type: mul\n"
        y += "bindings:\n"
        for e in sp["exprs"]:
            n = e["out"]["name"]
            y += "  %s:\n" % n
            if not (sp["hw"] == "noconfig" and sp["hwmiss"] == n):
                y += "  - config: Accel\n    prefix: tmp/%s\n" % n
            y += "  - component: FPMul\n    bindings:\n    - op: mul\n"
    return y


def outcome(y, hw):
    from teaal.parse import Einsum, Mapping, Architecture, Bindings, Format
    from teaal.trans.hifiber import HiFiber
    try:
        if hw:
            str(HiFiber(Einsum.from_str(y), Mapping.from_str(y), Architecture.from_str(y), Bindings.from_str(y), Format.from_str(y)))
        else:
            str(HiFiber(Einsum.from_str(y), Mapping.from_str(y)))
        return "text"
    except Exception as ex:
        return type(ex).__name__


def run(tier, rep):
    with workdir("C18") as wd:
        lines, stats = tlc.run("Legality", GEN_CFG, wd, workers=1, tag="gen", timeout=900)
        rep.add_tlc(stats, "Legality.tla: every instance of every rule")
        if stats["errors"]:
            raise MachineryError("Legality.tla failed: " + stats["errors"][0][:300])
        insts = [json.loads(s[6:]) for s in tlc.printed(lines, "LEGAL|")]
        recs = []
        for i in insts:
            y = render(i["spec"])
            recs.append({"rule": i["rule"], "site": json.dumps(i["site"]), "yaml": y, "outcome": outcome(y, i["spec"]["hw"] != "none")})
        bf = os.path.join(wd, "legality.json")
        json.dump({"recs": recs}, open(bf, "w"))
        lines, st2 = tlc.run("LegalityTrace", CFG, wd, env={"LEGALITY_BATCH": bf}, workers=2, tag="chk", timeout=600)
        rep.add_tlc(st2, "LegalityTrace.tla")
        if st2["errors"]:
            raise MachineryError("LegalityTrace.tla failed: " + st2["errors"][0][:300])
        for s in tlc.printed(lines, "LEGALITY|"):
            _, r, clause = s.split("|", 2)
            rec = recs[int(r) - 1]
            if clause.startswith("GENERATOR"):
                raise MachineryError("Legality.tla base is not legal for the compiler (%s): %s\n%s" % (rec["outcome"], rec["site"], rec["yaml"]))
            rep.violation(dict(kind="legality", clause=clause, spec=rec["yaml"], site=rec["site"], text="", family="legality", outcome=rec["outcome"]))
    by = {}
    for r in recs:
        by[r["rule"]] = by.get(r["rule"], 0) + 1
    rep.cov["evaluations"] = len(recs)
    rep.cov["traces_validated_against_impl"] = len(recs)
    rep.cov["distinct_nontrivial"] = len({r["yaml"] for r in recs if r["rule"] != "legal"})
    rep.cov["instances_by_rule"] = by
    rep.cov["exhaustive"] = True
    rep.cov["rule"] = "every (rule, base, site) instance Legality.tla defines; distinct = distinct rendered illegal specifications"
    for r in recs[:1] + recs[len(recs) // 2: len(recs) // 2 + 1] + recs[-1:]:
        rep.sample({"rule": r["rule"], "site": r["site"], "spec": r["yaml"], "outcome": r["outcome"]})
