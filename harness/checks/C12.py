"""C12 -- every trace the metrics dump consumes is produced during collection.
MetricsProtocol.tla monitor advanced by HFMachine on concrete runs (begin/end exactly once per Einsum, bracketing the loops;
file names consumed are produced by a registration or a filter step of the same section; intersectors created before the
loops) and by Scope on every path ("fed inside the loops" is structural)."""
import random

import execpipe
import scopepipe
from common import seed, workdir
from checks import C11
from checks._exec import run_exec


def run(tier, rep):
    rng = random.Random(seed())
    hw = C11.hw_specs(tier, rng)
    items, _ = run_exec("C12", tier, rep, hw, ("Protocol",), cap_q=6, cap_t=20, rng=rng,
                        rule="metrics-mode programs of the C11 corpus; the protocol is structural, so few inputs per program are run")
    progs = [{"id": m["id"], "yaml": m["yaml"], "text": m["text"], "family": m["family"], "mode": "metrics"} for _, m in items]
    with workdir("C12s") as wd:
        scopepipe.run_scope(progs, rep, wd, what="protocol-all-paths", protocol=True)
    rep.cov["programs"] = len(items)
