"""C06 -- every emitted program is valid, closed Python.
ast.parse (CPython's parser is the definition of "parses as Python") + Scope.tla: ReadsBound and LoopVarsScoped on every path."""
import random

import execpipe
import families
import scopepipe
from common import seed, workdir
from checks._exec import sample


def corpus(tier, rng):
    q = tier == "quick"
    n = 40 if q else 400
    specs = families.goldens() + families.c01_core() + families.st_flat_core() + families.conv_mask_core() + families.frac_follow_core() + families.occ_flat_core()
    for g in (families.gen_c01, families.gen_shape, families.gen_occ, families.gen_flat, families.gen_flat3, families.gen_affine_plain, families.gen_conv,
              families.gen_cascade, families.gen_st, families.gen_st_affine, families.gen_st_flat):
        specs += sample(g, rng, n)
    return specs


def run(tier, rep):
    rng = random.Random(seed() + 6)
    progs = []
    for k, sp in enumerate(corpus(tier, rng)):
        try:
            text = execpipe.compile_text(sp["yaml"])
        except Exception as ex:
            rep.cov["rejected_by_compiler"] += 1
            continue
        progs.append({"id": k, "yaml": sp["yaml"], "text": text, "family": sp["family"], "mode": "spacetime" if "spacetime:" in sp["yaml"] else "plain"})
    progs += metrics_programs(tier, rng, rep)
    with workdir("C06") as wd:
        scopepipe.run_scope(progs, rep, wd)
    rep.cov["evaluations"] = len(progs)
    rep.cov["distinct_nontrivial"] = len({p["text"] for p in progs})
    rep.cov["rule"] = "union of the families of C01-C05, C11, C16 in plain, spacetime and metrics mode; distinct = distinct emitted texts; every path (zero/one iteration per loop, both branches of every if) is explored by TLC"
    modes = {}
    for p in progs:
        modes[p["mode"]] = modes.get(p["mode"], 0) + 1
    rep.cov["modes"] = modes
    for p in progs[:1] + progs[-1:]:
        rep.sample({"spec": p["yaml"], "emitted": p["text"][:600], "user_names": scopepipe.user_names(p["yaml"]), "mode": p["mode"]})
    rep.assumptions += ["user-supplied names are derived from the specification text alone (declared inputs, rank extents, scalars, symbolic sizes) + the HiFiber API names"]


def metrics_programs(tier, rng, rep):
    try:
        from checks import C11
    except ImportError:
        return []
    out = []
    for k, sp in enumerate(C11.hw_specs(tier, rng, n=250 if tier == "quick" else 2500)):
        try:
            text = execpipe.compile_text(sp["yaml"], hw=True)
        except Exception:
            rep.cov["rejected_by_compiler"] += 1
            continue
        out.append({"id": "hw%d" % k, "yaml": sp["yaml"], "text": text, "family": sp["family"], "mode": "metrics"})
    return out
