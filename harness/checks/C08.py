"""C08 -- emission-order nondeterminism is benign.
(a) real schedules: every specification of a partition/metrics-heavy sub-corpus is compiled in fresh interpreters under N string-hash
    seeds; (b) model schedules: the same under random linear extensions of every flow graph injected through the env-guarded hook
    (a superset of the tie-breaks any seed can produce; TLC-chosen extensions are covered graph-by-graph in C10);
every DISTINCT text is judged by Scope.tla (closed, C06) and run on HFMachine on the same inputs against the same oracle
(hence all variants compute identical tensors).  (c) determinism in one process: a two-compile Session history per
specification validated by SessionTrace.tla."""
import os
import random
import subprocess
from concurrent.futures import ThreadPoolExecutor

import execpipe
import families
import hwfamily
import scopepipe
import sessionpipe
from common import REPO, GUARD, ROOT, seed, workdir
from checks._exec import build, sample

WORKER = os.path.join(ROOT, "harness", "compile_worker.py")


def corpus(tier, rng):
    q = tier == "quick"
    specs = [dict(sp, hw=True, family=sp["family"] + "-metrics") for sp in families.accel_specs(stripped=False, names=["sigma", "extensor", "outerspace", "gamma"])]
    specs += families.accel_specs(stripped=True, names=["demo"])
    specs += sample(hwfamily.gen_hw, rng, 2 if q else 20) + hwfamily.flatten_core()
    specs += sample(families.gen_occ, rng, 2 if q else 20) + sample(families.gen_shape, rng, 1 if q else 20) + sample(families.gen_flat, rng, 1 if q else 15)
    specs += sample(families.gen_cascade, rng, 1 if q else 15) + sample(families.gen_flat3, rng, 3 if q else 12)
    specs += [sp for sp in families.conv_systematic("quick") if sp["family"] == "conv-other-rank" and "follow(Q)" in sp["yaml"]][:: 3 if q else 1]
    specs += families.flat_split_core()[:: 3 if q else 1] + families.double_flat_core()[:: 2 if q else 1]       # independent split + flatten: the order of un-partitioning follows a set's iteration order
    return specs


def compile_variants(specs, wd, nseeds, ntopo):
    jobs = []
    for k, sp in enumerate(specs):
        p = os.path.join(wd, "spec%d.yaml" % k)
        open(p, "w").write(sp["yaml"])
        for s in range(nseeds):
            jobs.append((k, p, "hw" if sp.get("hw") else "plain", {"PYTHONHASHSEED": str(s)}, "seed%d" % s))
        for t in range(ntopo):
            jobs.append((k, p, "hw" if sp.get("hw") else "plain", {"PYTHONHASHSEED": "0", GUARD: "1", "TEAAL_VERIF_TOPO_SEED": str(1000 + t)}, "topo%d" % t))

    def one(job):
        k, p, mode, env, tag = job
        e = dict(os.environ)
        e.pop(GUARD, None)
        e.pop("TEAAL_VERIF_TRACE", None)
        e.update(env)
        r = subprocess.run(["/venv/bin/python", WORKER, p, mode, REPO], env=e, capture_output=True, text=True, timeout=600)
        return k, tag, r.returncode, r.stdout, r.stderr[-300:]

    with ThreadPoolExecutor(16) as ex:
        return list(ex.map(one, jobs))


def run(tier, rep):
    rng = random.Random(seed() + 8)
    q = tier == "quick"
    specs = corpus(tier, rng)
    nseeds, ntopo = (8, 4) if q else (32, 16)
    with workdir("C08") as wd:
        res = compile_variants(specs, wd, nseeds, ntopo)
        variants = {}
        for k, tag, rc, out, err in res:
            if rc != 0:
                # the same specification must not compile under one seed and fail under another
                variants.setdefault(k, {}).setdefault("FAILED: " + err.strip().splitlines()[-1] if err.strip() else "FAILED", []).append(tag)
            else:
                variants.setdefault(k, {}).setdefault(out, []).append(tag)
        todo = []
        nvar = {}
        for k, sp in enumerate(specs):
            texts = variants.get(k, {})
            oks = [t for t in texts if not t.startswith("FAILED")]
            fails = [t for t in texts if t.startswith("FAILED")]
            nvar[k] = len(oks)
            if oks and fails:
                rep.violation(dict(kind="seeds", clause="compiles under some hash seeds / orders and fails under others", spec=sp["yaml"], text=fails[0], family=sp["family"], tags=texts[fails[0]][:5]))
            elif fails:
                rep.cov["rejected_by_compiler"] += 1
            for j, t in enumerate(sorted(oks)[: (8 if q else 24)]):
                todo.append(dict(sp, text=t, family=sp["family"], key="%s@%s" % (sp["key"], texts[t][0]), variant_tags=texts[t][:4]))
        # every distinct text: closed (Scope) ...
        progs = [{"id": i, "yaml": sp["yaml"], "text": sp["text"], "family": sp["family"], "mode": "metrics" if sp.get("hw") else "plain"} for i, sp in enumerate(todo)]
        scopepipe.run_scope(progs, rep, wd, what="scope-variants")
        rep.cov["programs"] = 0
        # ... and computing the oracle's tensors on identical inputs (same rng seed per specification => same input space)
        items = []
        for sp in todo:
            items += build([sp], tier, random.Random(seed()), rep, cap=6 if q else 16)
        execpipe.run_batch(items, rep, lambda c: c.startswith(("Err:", "OutputCorrect", "OutputRestored")), wd, "c08")
        # (c) determinism within one process
        traces = []
        for k, sp in enumerate(specs):
            if sp.get("hw") or True:
                hist = [{"act": "parse", "spec": "s"}, {"act": "compile", "spec": "s"}, {"act": "parse", "spec": "s"}, {"act": "compile", "spec": "s"}]
                try:
                    traces.append((k, sessionpipe.replay(hist, {"s": sp["yaml"]}) if sp.get("hw") else replay_plain(hist, sp["yaml"])))
                except Exception:
                    pass
        rejected, accepted = sessionpipe.validate([t for _, t in traces], wd, rep, "twice")
        for tid, (l, why) in rejected.items():
            k = traces[tid - 1][0]
            rep.violation(dict(kind="session", clause=why, spec=specs[k]["yaml"], text="", family=specs[k]["family"]))
    rep.cov["specifications"] = len(specs)
    rep.cov["hash_seeds"] = nseeds
    rep.cov["injected_orders_per_spec"] = ntopo
    rep.cov["distinct_texts_per_spec"] = {specs[k]["family"] + "#%d" % k: n for k, n in nvar.items()}
    rep.cov["distinct_nontrivial"] = len(todo)
    rep.cov["evaluations"] = len(res)
    rep.cov["rule"] = "specification x (hash seed | injected linear extension); distinct = distinct emitted texts, each judged by Scope.tla and HFMachine.tla"
    for sp in todo[:2]:
        rep.sample({"family": sp["family"], "variant": sp["variant_tags"], "emitted": sp["text"][:500]})
    rep.assumptions += ["'all hash seeds' is a sample of seeds plus random linear extensions of the flow graphs (a superset of the sort tie-breaks)", "A1-A10"]


def replay_plain(hist, y):
    import hashlib
    from teaal.parse import Einsum, Mapping
    from teaal.trans.hifiber import HiFiber
    evs, objs, n = [], None, 0
    for a in hist:
        if a["act"] == "parse":
            n += 1
            objs = [Einsum.from_str(y), Mapping.from_str(y)]
            evs.append({"act": "parse", "spec": "s", "objs": "o%d" % n, "pre": "-", "post": sessionpipe.digest(objs), "out": "-"})
        else:
            pre = sessionpipe.digest(objs)
            out = hashlib.sha1(str(HiFiber(*objs)).encode()).hexdigest()[:12]
            evs.append({"act": "compile", "spec": "s", "objs": "o%d" % n, "pre": pre, "post": sessionpipe.digest(objs), "out": out})
    return evs
