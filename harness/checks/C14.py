"""C14 -- execution time is the bottleneck-per-block roll-up of component times.
RollUp.tla evaluated on the metrics dictionary the emitted dump section built on HFMachine, with stand-in models returning
small primes that vary with statement and input (so a double count, an omission or a wrong max/sum changes the value)."""
import random

from common import seed
from checks import C11
from checks._exec import run_exec


def run(tier, rep):
    rng = random.Random(seed())
    hw = C11.hw_specs(tier, rng)
    run_exec("C14", tier, rep, hw, ("RollUp",), cap_q=24, cap_t=100, rng=rng,
             rule="metrics-mode programs of the C11 corpus (generated architectures with frequency/bandwidth in {2,3,5,7,11}, 1-3 instances) + accelerator specifications with numbers scaled")
