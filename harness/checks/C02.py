"""C02 -- shape partitioning never changes the result and is undone on the output.
Decided by HFMachine!Verdict: OutputCorrect against the *unpartitioned* Einsum's oracle, OutputRestored (declared name,
rank order, original coordinates), no run-time error."""
import random

import families
import render
from common import seed, workdir
from checks._exec import run_exec, sample

CLAUSES = ("Err:", "OutputCorrect", "OutputRestored")


def run(tier, rep):
    rng = random.Random(seed())
    with workdir("C02ss") as wd:
        ss = render.exec_specs(wd, rep, 250 if tier == "quick" else 2500, seed(), want="shape")[: (40 if tier == "quick" else 600)]
    specs = sample(families.gen_shape, rng, 60 if tier == "quick" else 700) + sample(families.renamed(families.gen_shape), rng, 12 if tier == "quick" else 100) + ss
    run_exec("C02", tier, rep, specs, CLAUSES, cap_q=30, cap_t=200, rng=rng,
             rule="seeded sample of base Einsums x per-rank stacks of 0-3 uniform_shape/nway_shape levels (literal and symbolic sizes, sizes 1,2,3,7) x random loop order over all levels")
