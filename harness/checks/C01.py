"""C01 -- the generated loop nest computes the Einsum for every loop order and rank order.
Decided by HFMachine!Verdict (clauses Err / OutputRestored / OutputCorrect) against EinsumSem."""
import random

import families
from common import seed
from checks._exec import run_exec, sample

CLAUSES = ("Err:", "OutputCorrect", "OutputRestored")


def run(tier, rep):
    rng = random.Random(seed())
    specs = families.goldens() + families.c01_core() + sample(families.gen_c01, rng, 120 if tier == "quick" else 1500)
    run_exec("C01", tier, rep, specs, CLAUSES, cap_q=60, cap_t=400, rng=rng,
             rule="fixed core (19 golden specifications + 13 hand-written shapes) + seeded sample of plain Einsums (products, sums, take, scalars, rank-0) with loop/rank orders")
