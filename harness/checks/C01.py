"""C01 -- the generated loop nest computes the Einsum for every loop order and rank order.
Decided by HFMachine!Verdict (clauses Err / OutputRestored / OutputCorrect) against EinsumSem."""
import random

import families
import render
from common import seed, workdir
from checks._exec import run_exec, sample

CLAUSES = ("Err:", "OutputCorrect", "OutputRestored")


def run(tier, rep):
    rng = random.Random(seed())
    with workdir("C01ss") as wd:
        ss = render.exec_specs(wd, rep, 150 if tier == "quick" else 1500, seed(), want="plain")[: (40 if tier == "quick" else 600)]
    specs = families.goldens() + families.c01_core() + sample(families.gen_c01, rng, 100 if tier == "quick" else 1500) + ss
    run_exec("C01", tier, rep, specs, CLAUSES, cap_q=60, cap_t=400, rng=rng,
             rule="fixed core (19 golden specifications + 13 hand-written shapes) + seeded sample of plain Einsums (products, sums, take, scalars, rank-0) with loop/rank orders + behaviours of SpecSpace.tla (TLC -simulate)")
