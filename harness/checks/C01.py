"""C01 -- the generated loop nest computes the Einsum for every loop order and rank order.

Decided by HFMachine!Verdict (clauses Err / OutputRestored / OutputCorrect) against EinsumSem.
"""
import random

import execpipe
import families
from common import seed, workdir

CLAUSES = ("Err:", "OutputCorrect", "OutputRestored")


def relevant(c):
    return c.startswith(CLAUSES)


def build(specs, tier, rng, rep, cap=None, **kw):
    items = []
    for k, sp in enumerate(specs):
        try:
            e, m = execpipe.make_entry(sp["yaml"], sp["configs"], "%s#%d" % (sp["family"], k), tier=tier, rng=rng, cap=cap,
                                       family=sp["family"], extra={k2: v for k2, v in sp.items() if k2 not in ("yaml", "configs", "family")}, **kw)
        except execpipe.NotPython as ex:
            rep.violation(dict(kind="compile", clause="Err: emitted text is not Python: " + str(ex), spec=sp["yaml"], text=ex.text, family=sp["family"]))
            continue
        except (ValueError, KeyError, AssertionError, NotImplementedError, AttributeError, IndexError, TypeError) as ex:
            rep.cov["rejected_by_compiler"] += 1
            rep.cov.setdefault("rejections", {}).setdefault(type(ex).__name__, 0)
            rep.cov["rejections"][type(ex).__name__] += 1
            continue
        items.append((e, m))
    return items


def run(tier, rep):
    rng = random.Random(seed())
    n = 120 if tier == "quick" else 1200
    specs = families.goldens() + families.c01_core()
    seen = set()
    while len(specs) < n + 32:
        sp = families.gen_c01(rng)
        if sp["key"] in seen:
            continue
        seen.add(sp["key"])
        specs.append(sp)
    items = build(specs, tier, rng, rep, cap=60 if tier == "quick" else 400)
    with workdir("C01") as wd:
        execpipe.run_batch(items, rep, relevant, wd, "c01")
    rep.cov["distinct_nontrivial"] = len({m["text"] for _, m in items})
    rep.cov["rule"] = "fixed core (19 golden specifications + 13 hand-written shapes) + seeded sample of plain Einsums; distinct = distinct emitted texts"
    for e, m in items[:2] + items[-2:]:
        rep.sample({"spec": m["yaml"], "emitted": m["text"][:600], "inputs_tried": m["n_inputs"], "example_input": e["sups"][0][min(3, len(e["sups"][0]) - 1)]})
    rep.assumptions += ["A1-A10 of DESIGN 7.2 (reference reading of the HiFiber API)", "bounded extents (2-3) and the listed input space"]
