"""C13 -- fusion blocks are a legal, ordered partition of the Einsums.
(1) Fusion.tla model-checked exhaustively (histories <= 3 quick / 4 thorough): OrderedPartition, NonEmptyBlocks, BlockLegal, AppendOnly.
(2) Fusion.tla behaviours (TLC BFS for length 2, -simulate for 3 and 4) are stepped through real Program/Hardware/Fusion objects;
    the recorded (descriptor, get_blocks()) traces are validated against FusionTrace.tla: every real step must be a step AddEinsum allows.
(3) whole metrics-mode compilations of the same cascades: the metrics["blocks"] literal is judged by the invariants."""
import fusionpipe
import tlc
from common import MachineryError, seed, workdir


def run(tier, rep):
    q = tier == "quick"
    with workdir("C13") as wd:
        lines, stats = tlc.run("MC_Fusion", fusionpipe.MC_CFG % (", ".join('"%s"' % c for c in fusionpipe.MC_COMPS["quick"]), 3 if q else 4, "PROPERTY AppendOnly"), wd, workers=8, tag="mc", timeout=1800)
        rep.add_tlc(stats, "exhaustive model check of Fusion.tla, MaxLen=%d" % (3 if q else 4))
        if stats["errors"]:
            # an invariant of the design itself failing is a machinery problem (the spec is ours), not a verdict on the code
            raise MachineryError("Fusion.tla violates its own invariants: " + stats["errors"][0][:400])
        if not q:
            rep.cov["apalache_inductive_invariant"] = apalache_induction(wd)
        hists, st2 = fusionpipe.histories_from_tlc(wd, 2)          # components: a compute unit and a sequencer
        rep.add_tlc(st2, "history generation (all histories of length 2)")
        exhaustive2 = len(hists)
        if not q:
            for kinds in ("thorough", "wide"):                      # two compute units + sequencer; compute + sequencer + intersector
                h3, st3 = fusionpipe.histories_from_tlc(wd, 2, comps=kinds)
                rep.add_tlc(st3, "history generation (all histories of length 2, components %s)" % fusionpipe.MC_COMPS[kinds])
                hists += [h for h in h3 if h not in hists]
        for length, n in ((3, 300 if q else 3000), (4, 150 if q else 2000)):
            hs, st = fusionpipe.histories_from_tlc(wd, length, simulate=n, seed=seed() + length, comps="wide")
            rep.add_tlc(st, "history generation (-simulate, length %d)" % length)
            import random
            random.Random(seed() + length).shuffle(hs)
            hists += hs[:n]
        traces = fusionpipe.replay_many(hists)
        full_src = hists[::(40 if q else 8)]
        traces += fusionpipe.replay_many(full_src, full=True)
        # whole compilations of the metrics-mode cascades of the C11/C14 corpus (shared memories, per-Einsum or shared compute units)
        import random
        import re
        import json
        import execpipe
        import hwfamily
        rngc = random.Random(seed() + 13)
        ncasc = 0
        for _ in range(40 if q else 400):
            sp = hwfamily.gen_hw_cascade(rngc)
            try:
                text = execpipe.compile_text(sp["yaml"], hw=True)
            except Exception:
                continue
            m = re.search(r'^metrics\["blocks"\] = (\[.*\])$', text, re.M)
            blocks = [[sp["outs"].index(e) + 1 for e in b] for b in json.loads(m.group(1))]
            traces.append({"kind": "final", "events": [dict(d, blocks=[]) for d in sp["fusion_descs"]], "blocks": blocks})
            full_src.append(sp["fusion_descs"])
            ncasc += 1
        rep.cov["whole_compilations_of_generated_cascades"] = ncasc
        src = hists + full_src
        keep = [(t, h) for t, h in zip(traces, src) if t["kind"] != "rejected"]
        rep.cov["rejected_by_compiler"] = len(traces) - len(keep)
        rejected, accepted = fusionpipe.validate([t for t, _ in keep], wd, rep, "replay")
        rep.cov["traces_validated_against_impl"] = len(keep)
        rep.cov["evaluations"] = len(keep)
        rep.cov["distinct_nontrivial"] = len({str(h) for _, h in keep if len(h) >= 2})
        rep.cov["histories_len2_exhaustive"] = exhaustive2
        rep.cov["whole_compilations"] = len(full_src)
        rep.cov["rule"] = "descriptor = (config in 2) x (space list in 5, loop order M,K,N) x (subset of 2 compute components); all 1600 histories of length 2, seeded TLC simulations of length 3-4; distinct histories of length >= 2"
        for tid, (l, why) in sorted(rejected.items()):
            t, h = keep[tid - 1]
            rep.violation(dict(kind="fusion", clause=why, history=h[:l] if t["kind"] == "steps" else h, spec=fusionpipe.yaml_of(h), text="",
                               observed_blocks=(t["events"][l - 1]["blocks"] if t["kind"] == "steps" and l <= len(t["events"]) else t.get("blocks")),
                               family="fusion-" + t["kind"], step=l))
        accepted -= set(rejected)
        if len(accepted) + len(rejected) != len(keep):
            raise MachineryError("trace validation lost traces: %d accepted + %d rejected of %d" % (len(accepted), len(rejected), len(keep)))
        for t, h in keep[:2] + keep[-1:]:
            rep.sample({"history": h, "recorded": t})
        rep.assumptions += ["functional components are compute units bound with an op; configurations differ by name only"]


def apalache_induction(wd):
    """Thorough add-on: the legality invariants are inductive (spec/apalache/FusionInd.tla), which removes the history-length bound of the
    TLC run for the *design*; reported in the evidence only (the verdict on the code comes from trace validation)."""
    import os
    import shutil
    import subprocess
    from common import SPEC
    if not shutil.which("apalache-mc"):
        return "apalache-mc not available"
    out = {}
    for name, args in (("initial", ["--init=Init", "--inv=IndInv", "--length=0"]), ("step", ["--init=IndInit", "--inv=IndInv", "--length=1"])):
        try:
            p = subprocess.run(["apalache-mc", "check"] + args + ["--out-dir=" + os.path.join(wd, "apa"), os.path.join(SPEC, "apalache", "FusionInd.tla")],
                               capture_output=True, text=True, timeout=900, cwd=wd)
            out[name] = "NoError" if "The outcome is: NoError" in p.stdout else "outcome: " + " ".join(l for l in p.stdout.splitlines() if "outcome" in l or "EXITCODE" in l)[-200:]
        except subprocess.TimeoutExpired:
            out[name] = "timeout (900 s)"
    return out
