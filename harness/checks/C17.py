"""C17 -- specification text is parsed into exactly the structure written.
Syntax.tla generates every sentence of the bounded language of the five grammars (with spacing styles and adversarial names) together
with the structure it was rendered from, plus near-misses with the reason they are outside the grammar; each is parsed by the real parser
class and read back by an independent extractor (a plain walk of the lark tree); SyntaxTrace.tla compares."""
import json
import os

import tlc
from common import MachineryError, workdir

GEN_CFG = "CONSTANT Full = %s\nSPECIFICATION Spec\nINVARIANT Emit\nCHECK_DEADLOCK FALSE\n"
CFG = "SPECIFICATION Spec\nINVARIANT Verdict\nCHECK_DEADLOCK FALSE\n"


def ex_part(t):
    d = {"kind": str(t.data)}
    for c in t.children:
        if c.data == "leader":
            d["leader"] = str(c.children[0])
        elif c.data == "int_sz":
            d["size"] = {"t": "int", "n": int(c.children[0])}
        elif c.data == "str_sz":
            d["size"] = {"t": "str", "s": str(c.children[0])}
    return d


def ex_level(t):
    return {"name": str(t.children[0]), "num": 1 if t.data == "single" else int(t.children[1]) + 1}


def ex_stamp(t):
    return {"rank": str(t.children[0]), "style": str(t.data)}


def ex_ranks(t):
    return {"ranks": [str(c) for c in t.children]}


def ex_einsum(t):
    """Independent reader of the Einsum parse tree (tree shapes as documented by the grammar's aliases)."""
    def iexpr(n):
        out = []
        for it in n.children:
            if it.data == "ijust":
                out.append({"c": 1, "v": str(it.children[0])})
            else:
                out.append({"c": int(it.children[0]), "v": str(it.children[1])})
        return out

    def access(n):
        ranks = n.children[1]
        return {"name": str(n.children[0]), "idx": [iexpr(c) for c in ranks.children]}

    def factor(n):
        if n.data == "var":
            return {"k": "v", "name": str(n.children[0]), "idx": []}
        a = access(n)
        return {"k": "t", "name": a["name"], "idx": a["idx"]}

    def term(n):
        if n.data == "take":
            return {"kind": "take", "sel": int(n.children[-1]), "facs": [factor(c) for c in n.children[:-1]]}
        return {"kind": "times", "sel": 0, "facs": [factor(c) for c in n.children]}

    out, plus = t.children
    return {"out": access(out), "terms": [term(c) for c in plus.children]}


def parsers():
    from teaal.parse.equation import EquationParser
    from teaal.parse.level import LevelParser
    from teaal.parse.partitioning import PartitioningParser
    from teaal.parse.spacetime import SpaceTimeParser
    return {"part": (PartitioningParser.parse_partitioning, ex_part), "level": (LevelParser.parse, ex_level), "stamp": (SpaceTimeParser.parse, ex_stamp),
            "ranks": (PartitioningParser.parse_ranks, ex_ranks), "einsum": (EquationParser.parse, ex_einsum)}


def run(tier, rep):
    q = tier == "quick"
    P = parsers()
    with workdir("C17") as wd:
        lines, stats = tlc.run("Syntax", GEN_CFG % ("FALSE" if q else "TRUE"), wd, workers=1, tag="gen", timeout=900, heap="4g")
        rep.add_tlc(stats, "Syntax.tla: the bounded language of the five grammars (%s)" % ("core" if q else "full"))
        if stats["errors"]:
            raise MachineryError("Syntax.tla failed: " + stats["errors"][0][:300])
        sents = [json.loads(s[5:]) for s in tlc.printed(lines, "SENT|")]
        recs = []
        for s in sents:
            parse, ex = P[s["g"]]
            try:
                tree = parse(s["text"])
                rejected = False
            except Exception:
                tree, rejected = None, True
            got, readable, note = s["expect"], True, ""            # placeholder of the expected shape (TLC compares like with like)
            if rejected:
                note = "REJECTED"
            else:
                try:
                    got = ex(tree)
                except Exception as e2:
                    readable, note = False, "UNREADABLE: %s: %s" % (type(e2).__name__, str(e2)[:80])
            recs.append({"g": s["g"], "text": s["text"], "ok": s["ok"], "expect": s["expect"], "rejected": rejected, "got": got, "readable": readable, "note": note})
        bf = os.path.join(wd, "syntax.json")
        json.dump({"recs": recs}, open(bf, "w"))
        lines, st2 = tlc.run("SyntaxTrace", CFG, wd, env={"SYNTAX_BATCH": bf}, workers=4, tag="chk", timeout=900)
        rep.add_tlc(st2, "SyntaxTrace.tla")
        if st2["errors"]:
            raise MachineryError("SyntaxTrace.tla failed: " + st2["errors"][0][:300])
        for s in tlc.printed(lines, "SYNTAX|"):
            _, r, clause = s.split("|", 2)
            rec = recs[int(r) - 1]
            rep.violation(dict(kind="syntax", clause=clause, spec=rec["text"], grammar=rec["g"], expected=rec["expect"], got=rec["note"] or rec["got"], text="", family="syntax-" + rec["g"]))
    by = {}
    for r in recs:
        by[r["g"] + ("" if r["ok"] else "-nearmiss")] = by.get(r["g"] + ("" if r["ok"] else "-nearmiss"), 0) + 1
    rep.cov["programs"] = 0
    rep.cov["evaluations"] = len(recs)
    rep.cov["traces_validated_against_impl"] = len(recs)
    rep.cov["distinct_nontrivial"] = len({r["text"] for r in recs})
    rep.cov["sentences_by_grammar"] = by
    rep.cov["exhaustive"] = True
    rep.cov["rule"] = "every sentence Syntax.tla defines for the tier's bound (exhaustive enumeration by TLC); distinct = distinct texts"
    for r in recs[:2] + [x for x in recs if x["g"] == "einsum"][:2]:
        rep.sample({"grammar": r["g"], "text": r["text"], "in_grammar": r["ok"], "expected": r["expect"], "parser_returned": r["note"] or r["got"]})
