"""C10 -- statement order respects every data and control dependence.
Hoist.tla (PlusCal-style transcription of FlowGraph.__sort/__hoist + the order invariants) over flow graphs exported through
the public IR API: (a) the implementation's own order and injected random linear extensions: the transcription must reproduce
the real __hoist result and the result must satisfy IsPerm / EdgesForward / Nested / BodyInnermost / OutsideIndependent;
(b) linear extensions chosen by TLC are injected into the real FlowGraph (env-guarded hook) and the real result compared."""
import random

import hoistpipe
from common import seed, workdir
from checks import C06, C11
from checks._exec import sample


def graphs(tier, rng, rep, per_family=None):
    q = tier == "quick"
    import families
    specs = [(sp, False) for sp in C06.corpus(tier, rng)[::(5 if q else 2)]]
    # deterministic core: occupancy stacks whose levels name different leaders (a leader's fiber must be bound before each follower's split)
    specs += [(sp, False) for sp in families.occ_core() + families.conv_mask_core()]
    specs += [(sp, True) for sp in C11.hw_specs(tier, rng)[::(2 if q else 1)]]
    recs, src = [], []
    for sp, hw in specs:
        try:
            rs = hoistpipe.export(sp["yaml"], hw, injections=2 if q else 6, rng=rng)
        except Exception:
            rep.cov["rejected_by_compiler"] += 1
            continue
        for r in rs:
            recs.append(r)
            src.append((sp, hw))
    return recs, src


def run(tier, rep):
    rng = random.Random(seed() + 10)
    q = tier == "quick"
    recs, src = graphs(tier, rng, rep)
    with workdir("C10") as wd:
        bad = hoistpipe.run_real(recs, wd, rep)
        for k, clause in sorted(bad.items()):
            sp, hw = src[k]
            rep.violation(dict(kind="hoist", clause=clause, spec=sp["yaml"], text="", family=sp["family"], graph=recs[k]))
        # spec -> code: TLC-chosen linear extensions of a subset of graphs, injected into the real FlowGraph
        sub = [k for k in range(len(recs)) if recs[k]["trial"] == 0 and recs[k]["n"] <= 45][::(3 if q else 1)][: (60 if q else 400)]
        chosen, badfree = hoistpipe.run_free([recs[k] for k in sub], wd, rep, num=(150 if q else 1500), seed=seed())
        for g, clause in badfree.items():
            sp, hw = src[sub[g]]
            rep.violation(dict(kind="hoist", clause=clause + " (for a linear extension chosen by TLC)", spec=sp["yaml"], text="", family=sp["family"], graph=recs[sub[g]]))
        n_inj = 0
        for g, pre, post in chosen:
            k = sub[g]
            sp, hw = src[k]
            real = hoistpipe.inject_and_hoist(sp["yaml"], hw, recs[k]["einsum"], recs[k]["names"], pre)
            n_inj += 1
            if real != post:
                rep.violation(dict(kind="hoist", clause="real hoist result differs from the transcription (injected TLC order)", spec=sp["yaml"], text="",
                                   family=sp["family"], graph=recs[k], pre=pre, spec_post=post, real_post=real))
        # real dependences, independently of the graph's own edges: under admissible orders of the flow graphs (random linear extensions
        # injected through the hook) no emitted statement may read a name that the program binds only later (Scope.tla on the whole text)
        import os
        import re
        import execpipe
        import scopepipe
        import common
        os.environ[common.GUARD] = "1"
        progs = []
        specs = []
        seen = set()
        for sp, hw in src:
            if id(sp) not in seen:
                seen.add(id(sp))
                specs.append((sp, hw))
        for sp, hw in [x for i, x in enumerate(specs) if not q or i % 2 == 0 or x[0]["family"].startswith(("occ", "conv-us-mask"))]:
            texts, fails = [], []
            for k in [None] + list(range(3 if q else 8)):                 # None: the implementation's own order
                if k is not None:
                    os.environ["TEAAL_VERIF_TOPO_SEED"] = str(100 + k)
                try:
                    texts.append(execpipe.compile_text(sp["yaml"], hw=hw))
                except Exception as ex:
                    fails.append((k, ex))
                finally:
                    os.environ.pop("TEAAL_VERIF_TOPO_SEED", None)
            if texts and fails:
                # the specification compiles under one admissible order and not under another: the graph admits an order the translator cannot follow
                k, ex = fails[0]
                rep.violation(dict(kind="hoist", clause="Err: an admissible statement order makes the translator fail (%s: %s): a real dependence is not an edge of the flow graph"
                                   % (type(ex).__name__, str(ex)[:80]), spec=sp["yaml"], text="", family=sp["family"],
                                   topo_seed=("implementation's own order under this hash seed" if k is None else 100 + k), orders_failing=len(fails), orders_compiling=len(texts)))
            for text in texts:
                progs.append({"id": len(progs), "yaml": sp["yaml"], "text": text, "family": sp["family"], "mode": "metrics" if hw else "plain"})
        os.environ.pop(common.GUARD, None)
        distinct = {}
        for p in progs:
            distinct.setdefault(p["text"], p)
        progs = list(distinct.values())
        sub = common.Report("C10", tier)
        found = scopepipe.run_scope(progs, sub, wd, what="orders-closed")
        rep.cov["tlc_runs"] += sub.cov["tlc_runs"]
        rep.cov["states"] += sub.cov["states"]
        rep.cov["transitions"] += sub.cov["transitions"]
        n_texts = len(progs)
        for p, fs in zip(progs, found):
            for kind, name in sorted(fs):
                # only ordering problems: the name IS bound somewhere in the program (names bound nowhere are C06's business)
                if kind == "unbound" and re.search(r"(^|\n)\s*%s\s*=[^=]|for [^\n]*\b%s\b[^\n]* in " % (re.escape(name), re.escape(name)), p["text"]):
                    rep.violation(dict(kind="scope", clause="Err: unbound name %s under an admissible statement order (a real dependence is not an edge of the flow graph)" % name,
                                       spec=p["yaml"], text=p["text"], family=p["family"], mode=p["mode"]))
    rep.cov["texts_under_injected_orders"] = n_texts
    rep.cov["programs"] = len({id(s[0]) for s in src})
    rep.cov["evaluations"] = len(recs) + n_inj
    rep.cov["traces_validated_against_impl"] = len(recs) + n_inj
    rep.cov["distinct_nontrivial"] = len({(tuple(map(tuple, r["edges"])), tuple(r["pre"])) for r in recs if len(r["loops"]) >= 1})
    rep.cov["tlc_chosen_orders_injected"] = n_inj
    rep.cov["rule"] = "one flow graph per Einsum of the C06 corpus (plain/spacetime) and the C11 corpus (metrics) x (implementation's order + injected random linear extensions + TLC-chosen ones); distinct (graph, order) pairs with >= 1 loop"
    for r in recs[:1] + recs[-1:]:
        rep.sample({k: v for k, v in r.items()})
    rep.assumptions += ["dependences = the edges of the flow graph the compiler itself builds (the property is about ordering w.r.t. that graph)"]
