"""C05 -- cascaded Einsums compose and are compiled independently of their predecessors.
(i)   composition: whole cascades on HFMachine against the chained oracle (EinsumSem!Cascade), names and layouts (NamesTruthful, OutputRestored);
(ii)  independence (histories): for every Einsum i and start j <= i, E_j..E_i is compiled; the statements of E_i (hook h1, temporaries
      renumbered) must equal those of E_i compiled alone -- Independence.tla (plain and spacetime mode; metrics mode differs by design);
(iii) state: the hook trace of every cascade is validated against TensorIRTrace.tla (Begin requires every shared tensor in its initial
      state, Reset must restore it, every node changes only the tensor it names, emitted names match the tensor state)."""
import io
import json
import os
import random

from ruamel.yaml import YAML

import execpipe
import families
import tensorirpipe
import tlc
from common import MachineryError, seed, workdir
from checks._exec import run_exec, sample


def sub_cascade(y, j, i):
    d = execpipe.load_yaml(y)
    d["einsum"]["expressions"] = d["einsum"]["expressions"][j:i + 1]
    buf = io.StringIO()
    YAML(typ="safe", pure=True).dump(d, buf)
    return buf.getvalue()


def specs_for(tier, rng):
    q = tier == "quick"
    return families.goldens(["gram", "example", "example2", "example3", "example7", "nrm_sq"]) \
        + families.accel_specs(stripped=True, names=["outerspace", "gamma"]) \
        + [dict(sp, yaml=families.strip_sections(sp["yaml"], spacetime=False), family=sp["family"] + "-spacetime") for sp in families.accel_specs(stripped=False, names=["outerspace", "gamma"])] \
        + sample(families.gen_cascade, rng, 40 if q else 400) + sample(families.gen_cascade_conv, rng, 12 if q else 100)


def run(tier, rep):
    rng = random.Random(seed())
    specs = specs_for(tier, rng)
    items, _ = run_exec("C05", tier, rep, specs, ("Err:", "OutputCorrect", "OutputRestored", "NamesTruthful"), cap_q=30, cap_t=200, rng=rng,
                        rule="multi-Einsum golden specifications + seeded cascades of 2-4 Einsums with per-Einsum mappings, re-definition and rank-ordered intermediates")
    # (iii) + (ii) on every cascade that compiled
    traces, tsrc, recs, rsrc = [], [], [], []
    for e, m in items:
        y = m["yaml"]
        try:
            text, evs = tensorirpipe.record(y)
        except Exception:
            continue
        traces.append(tensorirpipe.prepare(evs, y))
        tsrc.append(m)
        segs = tensorirpipe.segments(evs)
        n = len(segs)
        for i in range(n):
            variants = []
            for j in range(i, -1, -1):
                if j == 0:
                    seg = segs[i]
                else:
                    try:
                        _, ev2 = tensorirpipe.record(sub_cascade(y, j, i))
                        seg = tensorirpipe.segments(ev2)[-1]
                    except Exception:
                        continue
                variants.append({"what": "Einsum %d compiled after Einsums %d..%d" % (i + 1, j + 1, i) if j < i else "Einsum %d compiled alone" % (i + 1),
                                 "out": tensorirpipe.seg_digest(seg), "stmts": seg})
            if len(variants) >= 2 and variants[0]["what"].endswith("alone"):
                recs.append({"variants": [{"what": v["what"], "out": v["out"]} for v in variants]})
                rsrc.append((m, variants))
    with workdir("C05t") as wd:
        rejected, accepted = tensorirpipe.validate(traces, wd, rep)
        for k, (l, ev, why) in sorted(rejected.items()):
            m = tsrc[k]
            rep.violation(dict(kind="tensorir", clause="TensorIR: " + why, spec=m["yaml"], text=m["text"], family=m["family"], event_index=l, event=traces[k][l - 1]))
        if recs:
            bf = os.path.join(wd, "indep.json")
            json.dump({"recs": recs}, open(bf, "w"))
            lines, stats = tlc.run("Independence", tensorirpipe.ICFG, wd, env={"INDEPENDENCE_BATCH": bf}, workers=2, tag="indep", timeout=600)
            rep.add_tlc(stats, "Independence.tla")
            if stats["errors"]:
                raise MachineryError("Independence.tla failed: " + stats["errors"][0][:300])
            for s in tlc.printed(lines, "INDEP|"):
                _, r, what = s.split("|", 2)
                m, variants = rsrc[int(r) - 1]
                bad = next(v for v in variants if v["what"] == what)
                rep.violation(dict(kind="independence", clause="code of an Einsum depends on its predecessors: " + what, spec=m["yaml"], text=m["text"], family=m["family"],
                                   alone=variants[0]["stmts"], in_cascade=bad["stmts"]))
    rep.cov["hook_traces_validated"] = len(traces)
    rep.cov["hook_events"] = sum(len(t) for t in traces)
    rep.cov["independence_records"] = len(recs)
    rep.cov["independence_compilations"] = sum(len(r["variants"]) for r in recs)
    rep.cov["traces_validated_against_impl"] += len(traces) + sum(len(r["variants"]) for r in recs)
