"""C05 -- cascaded Einsums compose and are compiled independently of their predecessors."""
import random

import families
from common import seed
from checks._exec import run_exec, sample


def run(tier, rep):
    rng = random.Random(seed())
    q = tier == "quick"
    specs = families.goldens(["gram", "example", "example2", "example3", "example7", "nrm_sq"]) + families.accel_specs(stripped=True, names=["outerspace", "gamma"]) \
        + sample(families.gen_cascade, rng, 40 if q else 400)
    run_exec("C05", tier, rep, specs, ("Err:", "OutputCorrect", "OutputRestored", "NamesTruthful"), cap_q=30, cap_t=200, rng=rng,
             rule="multi-Einsum golden specifications + seeded cascades of 2-4 Einsums with per-Einsum mappings, re-definition and rank-ordered intermediates")
