"""./check selftest -- demonstrations that the specifications are bound to the code and not vacuous (maintenance command, not a
manifest check).

 (1) every seeded change under seeded/ is applied to a scratch worktree of /repo (never to /repo itself); the checks listed in its
     meta.json 'caught_by' are run against the scratch tree (VERIF_REPO, separate evidence directory) and must exit 1;
 (2) recorded-trace corruption: one field of one event of each trace kind is altered and the trace spec must reject it;
 (3) the unchanged scratch tree must pass the same checks (no alarm without a change).
"""
import copy
import json
import os
import shutil
import subprocess
import tempfile

from common import ROOT, REPO


def sh(cmd, **kw):
    return subprocess.run(cmd, shell=True, capture_output=True, text=True, **kw)


def seeded(only=None):
    out = []
    d = os.path.join(ROOT, "seeded")
    for name in sorted(os.listdir(d)):
        mp = os.path.join(d, name, "meta.json")
        if os.path.exists(mp) and (not only or name in only):
            out.append((name, json.load(open(mp))))
    return out


def run_checks(repo, checks, evid):
    res = {}
    for c in checks:
        p = subprocess.run(["./check", c, "--tier", "quick"], cwd=ROOT, capture_output=True, text=True,
                           env=dict(os.environ, VERIF_REPO=repo, VERIF_EVIDENCE_DIR=evid))
        res[c] = p.returncode
    return res


def corruption_tests():
    """(2) alter one logged field and require rejection by the trace spec."""
    import common
    import fusionpipe
    import sessionpipe
    import tensorirpipe
    import families
    results = {}
    rep = common.Report("selftest", "quick")
    with common.workdir("selftest") as wd:
        # FusionTrace: claim a fusion that Fusion.tla does not allow
        h = [{"cfg": "cA", "loop": ["M", "K", "N"], "space": ["N"], "comps": ["F0"]}, {"cfg": "cB", "loop": ["M", "K", "N"], "space": ["N"], "comps": []}]
        t = fusionpipe.replay(h)
        good = copy.deepcopy(t)
        t["events"][1]["blocks"] = [[1, 2]]
        rej, acc = fusionpipe.validate([good, t], wd, rep, "st")
        results["FusionTrace rejects an altered get_blocks() and accepts the recorded one"] = (2 in rej) and (1 in acc) and (1 not in rej)
        # SessionTrace: alter the digest after a compile
        y = families.goldens(["gemm"])[0]["yaml"]
        import checks.C08 as C08
        tr = C08.replay_plain([{"act": "parse", "spec": "s"}, {"act": "compile", "spec": "s"}, {"act": "compile", "spec": "s"}], y)
        bad = copy.deepcopy(tr)
        bad[1]["post"] = "0" * 12
        rej, acc = sessionpipe.validate([tr, bad], wd, rep, "st")
        results["SessionTrace rejects an altered post-compile digest and accepts the recorded history"] = (2 in rej) and (1 in acc)
        # TensorIRTrace: alter one pointer / drop a state-changing event
        text, evs = tensorirpipe.record(families.goldens(["gram"])[0]["yaml"])
        good = tensorirpipe.prepare(evs)
        bad = copy.deepcopy(good)
        k = next(i for i, e in enumerate(bad) if e["ev"] == "LoopEnter")
        name = bad[k]["popped"][0]
        bad[k]["tensors"][name]["iter_ptr"] += 1
        drop = [e for i, e in enumerate(good) if not (e["ev"] == "Reset" and i < len(good) - 1)]
        rej, acc = tensorirpipe.validate([good, bad, drop], wd, rep, "st")
        results["TensorIRTrace accepts the recorded trace of gram.yaml"] = 0 in acc
        results["TensorIRTrace rejects an altered iteration pointer"] = 1 in rej
        results["TensorIRTrace rejects a trace with the Reset events of the first Einsums dropped"] = 2 in rej
    return results


def main(a):
    only = os.environ.get("SELFTEST_ONLY", "").split(",") if os.environ.get("SELFTEST_ONLY") else None
    ok = True
    print("== (2) trace corruption")
    for k, v in corruption_tests().items():
        print("   %-100s %s" % (k, "ok" if v else "FAILED"))
        ok = ok and v
    print("== (1)/(3) seeded changes on scratch worktrees")
    base = tempfile.mkdtemp(prefix="teaal-selftest-")
    wt = os.path.join(base, "repo")
    evid = os.path.join(base, "evidence")
    try:
        if sh("git -C %s worktree add --detach %s HEAD" % (REPO, wt)).returncode != 0:
            print("cannot create scratch worktree")
            return 2
        needed = sorted({c for _, m in seeded(only) for c in m.get("caught_by", [])})
        clean = run_checks(wt, needed, evid)
        for c, rc in clean.items():
            print("   unchanged scratch tree: %s exit %d %s" % (c, rc, "ok" if rc == 0 else "ALARM WITHOUT A CHANGE"))
            ok = ok and rc == 0
        for name, m in seeded(only):
            patch = os.path.join(ROOT, "seeded", name, "patch.diff")
            if sh("git -C %s apply %s" % (wt, patch)).returncode != 0:
                print("   %s: patch does not apply" % name)
                ok = False
                continue
            try:
                res = run_checks(wt, m.get("caught_by", []), evid)
            finally:
                sh("git -C %s checkout -- . && git -C %s clean -fdq" % (wt, wt))
            good = bool(res) and all(rc == 1 for rc in res.values())
            print("   %-45s %s %s" % (name, res, "caught" if good else "NOT CAUGHT"))
            ok = ok and good
    finally:
        sh("git -C %s worktree remove --force %s" % (REPO, wt))
        shutil.rmtree(base, ignore_errors=True)
    print("selftest:", "ok" if ok else "FAILED")
    return 0 if ok else 1
