"""Rendering of SpecSpace.tla terminal states (JSON) to the YAML a user would write, and running the generator."""
import json

import tlc
from common import MachineryError
from families import mk_yaml

TN = "ABCDEFGHI"
SS_CFG = """CONSTANTS MaxVars = %(MaxVars)d
          MaxTerms = %(MaxTerms)d
          MaxFacs = %(MaxFacs)d
          AllowAffine = %(AllowAffine)s
          AllowTake = %(AllowTake)s
          AllowPart = %(AllowPart)s
          MaxStack = %(MaxStack)d
          AllowFlat = %(AllowFlat)s
SPECIFICATION Spec
INVARIANT Emit
CHECK_DEADLOCK FALSE
"""
DEFAULTS = dict(MaxVars=3, MaxTerms=2, MaxFacs=3, AllowAffine="TRUE", AllowTake="TRUE", AllowPart="TRUE", MaxStack=2, AllowFlat="FALSE")


def generate(wd, report, num=None, seed=0, tag="ss", **params):
    """Specifications as behaviours of SpecSpace.tla: exhaustive (num=None) or -simulate."""
    p = dict(DEFAULTS)
    p.update(params)
    if num is None:
        lines, stats = tlc.run("SpecSpace", SS_CFG % p, wd, workers=8, tag=tag, timeout=1500, heap="8g")
    else:
        lines, stats = tlc.run("SpecSpace", SS_CFG % p, wd, workers=1, simulate="num=%d" % num, depth=60, seed=seed, tag=tag, timeout=900)
    if report is not None:
        report.add_tlc(stats, "SpecSpace.tla (%s)" % ("exhaustive" if num is None else "simulate num=%d seed=%d" % (num, seed)))
    if stats["errors"]:
        raise MachineryError("SpecSpace.tla failed: " + stats["errors"][0][:300])
    seen, out = set(), []
    for s in tlc.printed(lines, "SPEC|"):
        if s in seen:
            continue
        seen.add(s)
        out.append(json.loads(s[5:]))
    return out


def aff(ix):
    return " + ".join(("%d*%s" % (t["c"], t["v"]) if t["c"] != 1 else t["v"]) for t in ix)


def structure(sp):
    """Tensor names, declaration, expression text and the facts the oracle / renderers need."""
    names = iter(TN)
    decl, tens, exprs_terms, scal, affranks = {}, [], [], 0, {}
    for t in sp["terms"]:
        fs = []
        for f in t["facs"]:
            if f["k"] == "t":
                n = next(names)
                ranks = []
                for p, ix in enumerate(f["idx"]):
                    if len(ix) == 1 and ix[0]["c"] == 1:
                        ranks.append(ix[0]["v"].upper())
                    else:
                        r = "W" if "W" not in affranks.values() else "H"
                        affranks[(n, p)] = r
                        ranks.append(r)
                decl[n] = ranks
                tens.append(n)
                fs.append("%s[%s]" % (n, ", ".join(aff(ix) for ix in f["idx"])))
            else:
                scal += 1
                fs.append("s%d" % scal)
        exprs_terms.append(" * ".join(fs) if t["kind"] == "times" else "take(" + ", ".join(fs) + ", %d)" % (t["sel"] - 1))
    decl["Z"] = [v.upper() for v in sp["out"]]
    expr = "Z[%s] = " % ", ".join(sp["out"]) + " + ".join(exprs_terms)
    return decl, tens, expr


def partitioning(sp, tens):
    part = {}
    vars_ = ["m", "n", "k", "j"]
    for x, st in enumerate(sp["stacks"]):
        if st and st[0]["k"] == "flatten":
            part["(%s, %s)" % (vars_[x].upper(), vars_[st[0]["sz"] - 1].upper())] = ["flatten()"]
        elif st:
            part[vars_[x].upper()] = [("%s(%s.%d)" % (d["k"], tens[d["leader"] - 1], d["sz"])) if d["k"] == "uniform_occupancy" else "%s(%d)" % (d["k"], d["sz"]) for d in st]
    return part


def to_yaml(sp, loop="spec", rank_order="spec", with_part=True):
    """loop / rank_order: 'spec' (as chosen by the generator), 'omit', 'default' (the default written out explicitly)."""
    decl, tens, expr = structure(sp)
    part = partitioning(sp, tens) if with_part else {}
    if rank_order == "spec":
        ro = {tens[i]: [decl[tens[i]][j - 1] for j in r] for i, r in enumerate(sp["ro"]) if r}
    elif rank_order == "default":
        ro = {t: list(r) for t, r in decl.items()}
    else:
        ro = None
    if loop == "spec":
        lo = None if sp["lo"] == ["omitted"] else sp["lo"]
    elif loop == "default":
        lo = sp["dflt"]
    else:
        lo = None
    return mk_yaml(decl, [expr], ro=ro, part={"Z": part} if part else None, lo={"Z": lo} if lo else None)


def exec_specs(wd, report, num, seed, want="plain", **params):
    """SpecSpace.tla behaviours as specifications for the execution properties.
    want: 'plain' (no partitioning, no affine), 'shape' (only shape directives), 'occupancy' (at least one occupancy directive)."""
    p = dict(AllowAffine="FALSE", AllowPart="FALSE" if want == "plain" else "TRUE")
    p.update(params)
    out = []
    for sp in generate(wd, report, num=num, seed=seed, tag="ss" + want, **p):
        kinds = {d["k"] for st in sp["stacks"] for d in st}
        if want == "plain" and kinds:
            continue
        if want == "shape" and (not kinds or "uniform_occupancy" in kinds):
            continue
        if want == "occupancy" and "uniform_occupancy" not in kinds:
            continue
        decl, tens, expr = structure(sp)
        y = to_yaml(sp, loop="spec", rank_order="spec", with_part=want != "plain")
        vs = ["M", "N", "K", "J"][:sp["nv"]]
        cfg = {}
        for x, v in enumerate(vs):
            cfg[v] = (3 if want == "shape" else 4 if want == "occupancy" else 2) if sp["stacks"][x] else 2
        out.append({"yaml": y, "configs": [cfg], "family": "specspace-" + want, "key": y})
    return out
