"""Specification families (DESIGN Appendix B): seeded generators + fixed cores.

Each generator returns dicts {yaml, configs, family, key}.  The yaml is what a user would write; the
oracle descriptor is read back from it by hfir.parse_einsum, independently of the compiler.  Families
that are also specified in TLA+ (spec/SpecSpace*.tla) are enumerated/sampled by TLC instead and only
rendered here (render_*).
"""
import glob
import itertools
import os
import re

from common import REPO


def decl_yaml(decl):
    return "einsum:\n  declaration:\n" + "".join("    %s: [%s]\n" % (t, ", ".join(r)) for t, r in decl.items())


def mk_yaml(decl, exprs, ro=None, part=None, lo=None, st=None):
    """decl: {T: [ranks]}, exprs: [str], ro: {T: [ranks]}, part: {Z: {rank: [directives]}}, lo: {Z: [ranks]}, st: {Z: {...}}"""
    y = decl_yaml(decl) + "  expressions:\n" + "".join("    - %s\n" % e for e in exprs) + "mapping:\n"
    if ro:
        y += "  rank-order:\n" + "".join("    %s: [%s]\n" % (t, ", ".join(r)) for t, r in ro.items())
    if part and any(part.values()):
        y += "  partitioning:\n"
        for z, ranks in part.items():
            if ranks:
                y += "    %s:\n" % z + "".join("      %s: [%s]\n" % (r, ", ".join(ds)) for r, ds in ranks.items() if ds)
    if lo:
        y += "  loop-order:\n" + "".join("    %s: [%s]\n" % (z, ", ".join(r)) for z, r in lo.items())
    if st:
        y += "  spacetime:\n"
        for z, s in st.items():
            y += "    %s:\n      space: [%s]\n      time: [%s]\n" % (z, ", ".join(s["space"]), ", ".join(s["time"]))
            if s.get("opt"):
                y += "      opt: %s\n" % s["opt"]
    return y


def levels(rank, n):
    return [rank] if n == 0 else [rank + str(i) for i in range(n, -1, -1)]


def interleave(rng, seqs):
    """A random interleaving that keeps each sequence's own order (levels outermost-to-innermost)."""
    seqs = [list(s) for s in seqs]
    out = []
    while any(seqs):
        s = rng.choice([q for q in seqs if q])
        out.append(s.pop(0))
    return out


# ---------------------------------------------------------------------------------------------
# fixed cores

GOLDEN = ['dotprod', 'example', 'example2', 'example3', 'example4', 'example5', 'example6', 'example7', 'gemm', 'gemv', 'gram',
          'mttkrp', 'nrm_sq', 'outerprod', 'sddmm', 'spmv', 'spmm', 'ttm', 'ttv']


def goldens(names=None):
    out = []
    for n in names or GOLDEN:
        y = open(os.path.join(REPO, "tests/integration/%s.yaml" % n)).read()
        d = __import__("execpipe").load_yaml(y)
        ranks = sorted({r for rs in d["einsum"]["declaration"].values() for r in rs})
        out.append({"yaml": y, "configs": [{r: 2 for r in ranks}], "family": "golden", "key": n})
    return out


C01_CORE = [
    ({"A": ["K", "M"], "B": ["K", "N"], "Z": ["M", "N"]}, "Z[m, n] = A[k, m] * B[k, n]", None, ["K", "N", "M"]),
    ({"A": ["K", "M"], "B": ["K", "N"], "Z": ["M", "N"]}, "Z[m, n] = A[k, m] * B[k, n]", {"A": ["M", "K"], "Z": ["N", "M"]}, ["M", "K", "N"]),
    ({"A": ["M"], "B": ["M"], "Z": ["M"]}, "Z[m] = A[m] + B[m]", None, None),
    ({"A": ["M"], "B": ["M"], "C": ["M"], "Z": ["M"]}, "Z[m] = A[m] + B[m] + C[m]", None, None),
    ({"A": ["K", "M"], "B": ["K"], "C": ["M"], "Z": ["M"]}, "Z[m] = A[k, m] * B[k] + C[m] * b", None, ["K", "M"]),
    ({"A": ["K"], "B": ["K"], "Z": []}, "Z[] = A[k] * B[k]", None, None),
    ({"A": ["K", "M"], "Z": ["M"]}, "Z[m] = A[k, m]", None, ["K", "M"]),
    ({"A": ["K", "M"], "Z": ["K", "M"]}, "Z[k, m] = A[k, m] * b", {"Z": ["M", "K"]}, ["M", "K"]),
    ({"A": ["M"], "B": ["M"], "Z": ["M"]}, "Z[m] = take(A[m], B[m], 0)", None, None),
    ({"A": ["K", "M"], "B": ["K"], "Z": ["M"]}, "Z[m] = take(A[k, m], B[k], 1)", None, ["M", "K"]),
    ({"A": ["K", "M"], "B": ["K"], "C": ["M"], "Z": ["M"]}, "Z[m] = take(A[k, m], B[k], C[m], 2)", None, ["K", "M"]),
    ({"A": [], "B": ["M"], "Z": ["M"]}, "Z[m] = A[] * B[m]", None, None),
    ({"A": ["J", "K", "M"], "B": ["J", "K"], "Z": ["M"]}, "Z[m] = A[j, k, m] * B[j, k]", {"A": ["M", "J", "K"]}, ["J", "M", "K"]),
    # take with scalar operands, selected or not (scalars are non-zero)
    ({"A": ["K", "M"], "B": ["K"], "Z": ["M"]}, "Z[m] = take(A[k, m], s, B[k], 0)", None, ["K", "M"]),
    ({"A": ["M"], "Z": ["M"]}, "Z[m] = take(s, A[m], 1)", None, None),
    ({"A": ["M"], "Z": ["M"]}, "Z[m] = take(A[m], s, 1)", None, None),
    # take as a summand (known finding KF-TAKE-SUMMAND: kept in the core so that the finding is re-derived on every run)
    ({"A": ["N"], "B": ["M"], "C": ["M"], "D": ["N"], "Z": []}, "Z[] = A[n] * B[m] + take(C[m], D[n], 1)", None, ["N", "M"]),
]


def c01_core():
    out = []
    for k, (decl, expr, ro, lo) in enumerate(C01_CORE):
        ranks = sorted({r for rs in decl.values() for r in rs})
        out.append({"yaml": mk_yaml(decl, [expr], ro=ro, lo={"Z": lo} if lo else None), "configs": [{r: 2 for r in ranks}],
                    "family": "c01-core", "key": "core%d" % k})
    return out


VARS = ["m", "n", "k", "j"]


def gen_c01(rng):
    """Plain Einsums: products, sums of products, a single take, scalars, rank-0, with loop and rank orders."""
    nv = rng.choice([1, 2, 2, 3, 3])
    vs = VARS[:nv]
    out_idx = rng.sample(vs, rng.choice(range(0, min(2, nv) + 1)))
    nterms = rng.choice([1, 1, 2, 2, 3])
    single_take = nterms == 1 and rng.random() < 0.35
    names = iter("ABCDEFGHI")
    terms = []
    for t in range(nterms):
        nf = rng.choice([2, 3]) if single_take else rng.choice([1, 2, 2, 3])
        facs = []
        for f in range(nf):
            if rng.random() < (0.3 if single_take else 0.12) and f > 0:
                facs.append(["var", "s" + str(t) + str(f)])
            else:
                facs.append(["tensor", None, []])
        tf = [f for f in facs if f[0] == "tensor"]
        for v in vs:
            for f in rng.sample(tf, rng.randint(1, len(tf))):
                f[2].append(v)
        if single_take:
            # rank-0 operands of take are outside the input space (DESIGN 5, C01)
            for f in tf:
                if not f[2]:
                    f[2].append(rng.choice(vs))
        for f in tf:
            rng.shuffle(f[2])
            f[1] = next(names)
        terms.append(("take" if single_take else "times", facs, rng.randrange(nf) if single_take else None))
    decl = {"Z": [v.upper() for v in out_idx]}
    for kind, facs, sel in terms:
        for f in facs:
            if f[0] == "tensor":
                decl[f[1]] = [v.upper() for v in f[2]]

    def rf(f):
        return f[1] if f[0] == "var" else "%s[%s]" % (f[1], ", ".join(f[2]))

    def rt(t):
        kind, facs, sel = t
        return " * ".join(rf(f) for f in facs) if kind == "times" else "take(" + ", ".join(rf(f) for f in facs) + ", %d)" % sel

    expr = "Z[%s] = " % ", ".join(out_idx) + " + ".join(rt(t) for t in terms)
    ro = {t: rng.sample(r, len(r)) for t, r in decl.items() if rng.random() < 0.5 and len(r) > 1}
    lo = rng.sample([v.upper() for v in vs], len(vs)) if rng.random() < 0.8 else None
    y = mk_yaml(decl, [expr], ro=ro, lo={"Z": lo} if lo else None)
    ext = {v.upper(): 2 for v in vs}
    if rng.random() < 0.3:
        ext[rng.choice(vs).upper()] = 3
    return {"yaml": y, "configs": [ext], "family": "c01-take" if single_take else "c01-plain", "key": expr}


BASES = [
    ("Z[m, n] = A[k, m] * B[k, n]", {"A": "km", "B": "kn", "Z": "mn"}),
    ("Z[m] = A[m] * B[m]", {"A": "m", "B": "m", "Z": "m"}),
    ("Z[m] = A[k, m]", {"A": "km", "Z": "m"}),
    ("Z[m, n] = A[m, n] + B[m, n]", {"A": "mn", "B": "mn", "Z": "mn"}),
    ("Z[m] = A[k, m] * B[k] * C[m]", {"A": "km", "B": "k", "C": "m", "Z": "m"}),
    ("Z[] = A[k] * B[k]", {"A": "k", "B": "k", "Z": ""}),
    ("Z[m] = A[k, m] * B[k] + C[m]", {"A": "km", "B": "k", "C": "m", "Z": "m"}),
]


def updecl(decl):
    return {t: [c.upper() for c in r] for t, r in decl.items()}


def gen_shape(rng, symbolic=True):
    """Shape partitioning: 1-3 levels of uniform_shape/nway_shape, literal or symbolic sizes, any loop order."""
    expr, decl = rng.choice(BASES)
    vs = sorted(set("".join(decl.values())))
    stacks = {}
    syms = {}
    for v in vs:
        V = v.upper()
        k = rng.choice([0, 1, 1, 2, 3])
        st = []
        for lvl in range(k):
            if rng.random() < 0.6:
                if symbolic and rng.random() < 0.25:
                    nm = "%sS%d" % (V, lvl)
                    syms[nm] = rng.choice([1, 2, 3])
                    st.append("uniform_shape(%s)" % nm)
                else:
                    st.append("uniform_shape(%d)" % rng.choice([1, 2, 3, 7]))
            elif symbolic and rng.random() < 0.2:
                nm = "%sN%d" % (V, lvl)
                syms[nm] = rng.choice([1, 2, 3])
                st.append("nway_shape(%s)" % nm)
            else:
                st.append("nway_shape(%d)" % rng.choice([1, 2, 3]))
        # uniform_shape sizes must shrink going down for the split to be meaningful; keep as generated (sizes that do not
        # divide or exceed the extent are in the property's quantifier)
        stacks[V] = st
    lv = [l for v in vs for l in levels(v.upper(), len(stacks[v.upper()]))]
    lo = rng.sample(lv, len(lv))
    y = mk_yaml(updecl(decl), [expr], part={"Z": stacks}, lo={"Z": lo})
    cfg = {v.upper(): (rng.choice([3, 4, 5]) if stacks[v.upper()] else 2) for v in vs}
    cfg.update(syms)
    return {"yaml": y, "configs": [cfg], "family": "shape", "key": y}


def gen_occ(rng):
    """Occupancy partitioning of product Einsums: any leader holding the rank, 1-2 levels, alone or beneath a shape split."""
    expr, decl = rng.choice([b for b in BASES if "+" not in b[0]])
    vs = sorted(set("".join(decl.values())))
    stacks = {}
    syms = {}
    for v in vs:
        V = v.upper()
        holders = [t for t, r in decl.items() if v in r and t != "Z"]
        k = rng.choice([0, 1, 1, 2])
        st = []
        if k and rng.random() < 0.4:
            st.append("uniform_shape(%d)" % rng.choice([2, 3]))
        # the leader is chosen per level: different levels of one rank may follow different tensors
        for lvl in range(k):
            if rng.random() < 0.2:                      # symbolic occupancy (a name the user supplies)
                nm = "%sO%d" % (V, lvl)
                syms[nm] = rng.choice([1, 2, 3])
                st.append("uniform_occupancy(%s.%s)" % (rng.choice(holders), nm))
            else:
                st.append("uniform_occupancy(%s.%d)" % (rng.choice(holders), rng.choice([1, 2, 3])))
        stacks[V] = st
    lo = interleave(rng, [levels(v.upper(), len(stacks[v.upper()])) for v in vs])
    y = mk_yaml(updecl(decl), [expr], part={"Z": stacks}, lo={"Z": lo})
    cfg = {v.upper(): (rng.choice([3, 4]) if stacks[v.upper()] else 2) for v in vs}
    cfg.update(syms)
    return {"yaml": y, "configs": [cfg], "family": "occupancy", "key": y}


FBASES = [
    ("Z[m, n] = A[k, m] * B[k, n]", {"A": "km", "B": "kn", "Z": "mn"}),
    ("Z[m] = A[k, m] * B[k]", {"A": "km", "B": "k", "Z": "m"}),
    ("Z[m] = A[k, m]", {"A": "km", "Z": "m"}),
    ("Z[k, m] = A[k, m] * B[k, m]", {"A": "km", "B": "km", "Z": "km"}),
]


def gen_flat(rng):
    """flatten() of two ranks of one tensor (optionally of a shape-split level), then occupancy of the flattened rank."""
    expr, decl = rng.choice(FBASES)
    vs = sorted(set("".join(decl.values())))
    T = rng.choice([t for t, r in decl.items() if len(r) >= 2 and t != "Z"])
    r2 = rng.sample(list(decl[T]), 2)
    X, Y = r2[0].upper(), r2[1].upper()
    pre_shape = rng.random() < 0.4
    part = {}
    loop_levels = {v.upper(): [v.upper()] for v in vs}
    if pre_shape:
        part[Y] = ["uniform_shape(%d)" % rng.choice([2, 3])]
        flat = (X, Y + "0")
        loop_levels[Y] = [Y + "1"]
    else:
        flat = (X, Y)
        loop_levels[Y] = []
    loop_levels[X] = []
    fname = "".join(flat)
    part["(%s, %s)" % flat] = ["flatten()"]
    occ = rng.choice([0, 1, 1, 2])
    if occ:
        part[fname] = ["uniform_occupancy(%s.%d)" % (T, rng.choice([1, 2, 3])) for _ in range(occ)]
    flevels = [fname + str(i) for i in range(occ, -1, -1)] if occ else [fname]
    others = [l for v in vs for l in loop_levels[v.upper()]]
    seqs = ([[Y + "1"] + flevels] + [[o] for o in others if o != Y + "1"]) if pre_shape else ([flevels] + [[o] for o in others])
    lo = interleave(rng, seqs)
    y = mk_yaml(updecl(decl), [expr], part={"Z": part}, lo={"Z": lo})
    return {"yaml": y, "configs": [{v.upper(): rng.choice([2, 3]) for v in vs}], "family": "flatten", "key": y}


def gen_conv(rng, coeffs=(1, 1, 2), parts=("none", "us", "us", "nw"), two_level=False):
    """Affine accesses O[q] = I[a*q + b*s] * F[s] with shape partitioning of Q and W following."""
    a, b = rng.choice(coeffs), rng.choice(coeffs)

    def t(c, v):
        return v if c == 1 else "%d*%s" % (c, v)

    expr = "O[q] = I[%s + %s] * F[s]" % (t(a, "q"), t(b, "s"))
    part = rng.choice(parts)
    size = rng.choice([1, 2, 3])
    pstr = {"none": None, "us": "uniform_shape(%d)" % size, "nw": "nway_shape(%d)" % rng.choice([1, 2])}[part]
    ql = ["Q"] if not pstr else ["Q1", "Q0"]
    wl = ["W"] if not pstr else ["W1", "W0"]
    lo = rng.choice([ql + ["S"], ["S"] + ql, ql[:-1] + ["S", ql[-1]], ql[:-1] + [wl[-1], ql[-1]]])
    parts_d = {"Q": [pstr], "W": ["follow(Q)"]} if pstr else {}
    y = mk_yaml({"I": ["W"], "F": ["S"], "O": ["Q"]}, [expr], part={"O": parts_d}, lo={"O": lo})
    cfgs = [{"Q": Q, "S": S, "W": a * (Q - 1) + b * (S - 1) + 1} for Q, S in [(3, 2), (4, 2), (5, 3)]]
    return {"yaml": y, "configs": cfgs, "family": "conv-" + part, "key": y, "coeffs": (a, b), "size": size, "lo": lo}


def gen_affine_plain(rng):
    """Unpartitioned affine accesses in 1-D and 2-D: convolution, stride, dilation, subsampling, all legal loop orders."""
    kind = rng.choice(["conv1", "conv1", "sub", "conv2", "sub2"])
    cs = [1, 1, 2, 2, 4] if rng.random() < 0.8 else [1, 2, 3]

    def t(c, v):
        return v if c == 1 else "%d*%s" % (c, v)

    if kind == "conv1":
        a, b = rng.choice(cs), rng.choice(cs)
        expr = "O[q] = I[%s + %s] * F[s]" % (t(a, "q"), t(b, "s"))
        decl = {"I": ["W"], "F": ["S"], "O": ["Q"]}
        lo = rng.choice([["Q", "S"], ["S", "Q"], ["W", "Q"], ["W", "S"], ["Q", "W"], ["S", "W"], None])
        cfgs = [{"Q": Q, "S": S, "W": a * (Q - 1) + b * (S - 1) + 1} for Q, S in [(3, 2), (4, 3)]]
    elif kind == "sub":
        a = rng.choice([2, 2, 3, 4])
        expr = "Z[m] = A[%s]" % t(a, "m")
        decl = {"A": ["N"], "Z": ["M"]}
        lo = rng.choice([["M"], None, ["N"]])
        cfgs = [{"M": M, "N": a * (M - 1) + 1} for M in (2, 3)]
    elif kind == "sub2":
        a = rng.choice([2, 2, 4])
        expr = "Z[m, k] = A[%s, k] * B[k]" % t(a, "m")
        decl = {"A": ["N", "K"], "B": ["K"], "Z": ["M", "K"]}
        lo = rng.choice([["M", "K"], ["K", "M"], None])
        cfgs = [{"M": 3, "K": 2, "N": a * 2 + 1}]
    else:
        a, b = rng.choice([1, 1, 2]), rng.choice([1, 1, 2])
        expr = "O[p, q] = I[%s + %s, q + r] * F[s, r]" % (t(a, "p"), t(b, "s"))
        decl = {"I": ["H", "W"], "F": ["S", "R"], "O": ["P", "Q"]}
        lo = rng.choice([["P", "Q", "S", "R"], ["S", "R", "P", "Q"], ["P", "S", "Q", "R"], ["Q", "R", "P", "S"], None])
        cfgs = [{"P": 2, "Q": 2, "S": 2, "R": 2, "H": a + b + 1, "W": 3}]
    y = mk_yaml(decl, [expr], lo={list(decl)[-1]: lo} if lo else None)
    return {"yaml": y, "configs": cfgs, "family": "affine-" + kind, "key": y}


SBASES = [
    ("Z[m, n] = A[k, m] * B[k, n]", {"A": "km", "B": "kn", "Z": "mn"}),
    ("Z[m] = A[m] + B[m]", {"A": "m", "B": "m", "Z": "m"}),
    ("Z[m] = A[k, m] * B[k]", {"A": "km", "B": "k", "Z": "m"}),
    ("Z[] = A[k] * B[k]", {"A": "k", "B": "k", "Z": ""}),
]


def gen_st(rng, ordered=True):
    """Spacetime: every split of the loop ranks into space/time, pos/coord style per rank, optional slip."""
    expr, decl = rng.choice(SBASES)
    vs = sorted(set("".join(decl.values())))
    prod = "+" not in expr
    part = {}
    lv_of = {}
    for v in vs:
        V = v.upper()
        c = rng.random()
        holders = [t for t, r in decl.items() if v in r and t != "Z"]
        if c < 0.25:
            part[V] = ["uniform_shape(%d)" % rng.choice([2, 3])]
            lv_of[V] = [V + "1", V + "0"]
        elif c < 0.4 and prod:
            part[V] = ["uniform_occupancy(%s.%d)" % (rng.choice(holders), rng.choice([1, 2]))]
            lv_of[V] = [V + "1", V + "0"]
        elif c < 0.5:
            part[V] = ["uniform_shape(4)", "uniform_shape(2)"]
            lv_of[V] = [V + "2", V + "1", V + "0"]
        else:
            lv_of[V] = [V]
    lo = interleave(rng, list(lv_of.values()))
    space = [r for r in lo if rng.random() < 0.4]
    time_ = [r for r in lo if r not in space]
    if rng.random() < 0.3:
        rng.shuffle(space)

    def sty(r):
        return r + rng.choice(["", ".pos", ".coord"])

    st = {"Z": {"space": [sty(r) for r in space], "time": [sty(r) for r in time_], "opt": "slip" if rng.random() < 0.3 else None}}
    y = mk_yaml(updecl(decl), [expr], part={"Z": part}, lo={"Z": lo}, st=st)
    cfg = {v.upper(): (rng.choice([3, 4]) if v.upper() in part else 2) for v in vs}
    return {"yaml": y, "configs": [cfg], "family": "spacetime", "key": y, "stamped": True, "no_st_yaml": mk_yaml(updecl(decl), [expr], part={"Z": part}, lo={"Z": lo})}


def gen_cascade(rng):
    """Cascades of 2-4 Einsums with per-Einsum mappings, re-definition, outputs consumed under a rank order."""
    n = rng.choice([2, 2, 3, 3, 4])
    decl = {"A": ["K", "M"], "B": ["K", "N"], "C": ["M"]}
    avail = {"A": "km", "B": "kn", "C": "m"}
    exprs, part, lo, ro = [], {}, {}, {}
    outs = []
    for i in range(n):
        redefine = outs and rng.random() < 0.15
        name = rng.choice(outs) if redefine else "T%d" % i
        if i == n - 1 and not redefine:
            name = "Z"
        kind = rng.choice(["prod", "prod", "reduce", "sum", "copyscale"])
        srcs = list(avail)
        if name in srcs and not redefine:
            srcs.remove(name)
        if kind == "prod":
            x, y_ = rng.sample(srcs, 2) if len(srcs) >= 2 else (srcs[0], srcs[0])
            if x == y_:
                kind = "copyscale"
            else:
                allv = sorted(set(avail[x]) | set(avail[y_]))
                if redefine:
                    ov = list(avail[name])
                    if not set(ov) <= set(allv):
                        kind = "copyscale"
                else:
                    ov = sorted(rng.sample(allv, rng.choice(range(1, min(2, len(allv)) + 1))))
                if kind == "prod":
                    expr = "%s[%s] = %s[%s] * %s[%s]" % (name, ", ".join(ov), x, ", ".join(avail[x]), y_, ", ".join(avail[y_]))
                    vars_ = allv
        if kind == "sum":
            cands = [(p, q) for p in srcs for q in srcs if p < q and sorted(avail[p]) == sorted(avail[q]) and avail[p]]
            if not cands or redefine:
                kind = "copyscale"
            else:
                x, y_ = rng.choice(cands)
                ov = list(avail[x])
                expr = "%s[%s] = %s[%s] + %s[%s]" % (name, ", ".join(ov), x, ", ".join(avail[x]), y_, ", ".join(avail[y_]))
                vars_ = sorted(ov)
        if kind == "reduce":
            x = rng.choice([s for s in srcs if len(avail[s]) >= 1])
            allv = list(avail[x])
            if redefine:
                ov = list(avail[name])
                if not set(ov) <= set(allv):
                    kind = "copyscale"
            else:
                ov = sorted(rng.sample(allv, len(allv) - 1))
            if kind == "reduce":
                expr = "%s[%s] = %s[%s]" % (name, ", ".join(ov), x, ", ".join(allv))
                vars_ = sorted(allv)
        if kind == "copyscale":
            x = rng.choice([s for s in srcs if s != name] or srcs)
            if redefine and sorted(avail[name]) != sorted(avail[x]):
                name = "T%d" % i if i < n - 1 else "Z"
                redefine = False
            ov = list(avail[name]) if redefine else list(avail[x])
            expr = "%s[%s] = %s[%s] * b" % (name, ", ".join(ov), x, ", ".join(avail[x]))
            vars_ = sorted(avail[x])
        if not redefine:
            decl[name] = [v.upper() for v in ov]
            avail[name] = "".join(ov)
            outs.append(name)
            if len(ov) == 2 and rng.random() < 0.3:
                ro[name] = [ov[1].upper(), ov[0].upper()]
        if name in exprs_names(exprs) and not redefine:
            pass
        exprs.append(expr)
        # per-Einsum mapping
        if name not in lo:
            stacks = {}
            for v in vars_:
                V = v.upper()
                c = rng.random()
                if c < 0.2:
                    stacks[V] = ["uniform_shape(%d)" % rng.choice([2, 3])]
                elif c < 0.28:
                    stacks[V] = ["uniform_shape(4)", "uniform_shape(2)"]
            if "+" not in expr:
                for v in vars_:
                    V = v.upper()
                    if V not in stacks and rng.random() < 0.12:
                        holders = [t for t in re.findall(r"(\w+)\[([^\]]*)\]", expr.split("=", 1)[1]) if v in [q.strip() for q in t[1].split(",")]]
                        if holders:
                            stacks[V] = ["uniform_occupancy(%s.%d)" % (rng.choice(holders)[0], rng.choice([1, 2]))]
            if stacks:
                part[name] = stacks
            lv = [levels(v.upper(), len(stacks.get(v.upper(), []))) for v in vars_]
            if rng.random() < 0.75:
                lo[name] = interleave(rng, lv)
    ranks = sorted({r for rs in decl.values() for r in rs})
    y = mk_yaml(decl, exprs, ro=ro, part=part, lo=lo)
    cfg = {r: 3 if any(r in (part.get(z) or {}) for z in part) else 2 for r in ranks}
    return {"yaml": y, "configs": [cfg], "family": "cascade", "key": y, "n_einsums": n}


def exprs_names(exprs):
    return [e.split("[", 1)[0].strip() for e in exprs]


# ---------------------------------------------------------------------------------------------
# the repository's accelerator specifications, numbers scaled down (TLC integers are 32 bit; the compiler treats
# frequencies, bandwidths, instance counts and literal partition sizes opaquely)

ACCEL = ["sigma", "extensor", "outerspace", "gamma", "demo"]


def scale_numbers(y):
    y = re.sub(r"clock_frequency:\s*\d+", "clock_frequency: 3", y)
    y = re.sub(r"bandwidth:\s*\d+", "bandwidth: 5", y)
    y = re.sub(r"\[0\.\.(\d+)\]", lambda m: "[0..%d]" % (int(m.group(1)) % 3 + 1), y)
    y = re.sub(r"uniform_shape\(128\)", "uniform_shape(2)", y)
    y = re.sub(r"\.16384\)", ".2)", y)
    y = re.sub(r"depth:\s*\d+", "depth: 16", y)
    return y


def strip_sections(y, spacetime=True, hardware=True):
    if hardware:
        cut = [m.start() for m in re.finditer(r"^(architecture|bindings|format):", y, re.M)]
        if cut:
            y = y[:min(cut)]
    if spacetime:
        y = re.sub(r"^  spacetime:\n(?:^    .*\n|^\s*\n)*", "", y, flags=re.M)
    return y


def accel(name, ext=3):
    import execpipe
    y = scale_numbers(open(os.path.join(REPO, "tests/integration/%s.yaml" % name)).read())
    d = execpipe.load_yaml(y)
    ranks = sorted({r for rs in d["einsum"]["declaration"].values() for r in rs})
    part = ((d.get("mapping") or {}).get("partitioning") or {})
    syms = set(re.findall(r"[(.]([A-Z][A-Z0-9]*)\)", " ".join(str(v) for v in part.values())))
    cfg = {r: ext for r in ranks}
    for s in syms:
        if s not in cfg and s not in d["einsum"]["declaration"]:
            cfg[s] = 1 if s.endswith("0") else 2
    return y, cfg


def accel_specs(stripped=True, names=None):
    out = []
    for n in names or ACCEL:
        y, cfg = accel(n, ext=4 if n in ("demo", "extensor") else 3)
        if stripped:
            y = strip_sections(y)
        out.append({"yaml": y, "configs": [cfg], "family": "accel-" + n, "key": n, "cap": 30})
    return out


def conv_systematic(tier):
    """1-D affine accesses O[q] = I[a*q + b*s] * F[s], systematically: coefficient pairs x every loop order (unpartitioned: incl. the
    input's own rank W with the other projected) x partitioned output rank with W following x the legal level orders."""
    q = tier == "quick"
    pairs = [(1, 1), (2, 1), (1, 2), (2, 2), (2, 4), (4, 2), (3, 1), (1, 3), (1, -1), (2, -1), (2, -2)] if q else \
        [(a, b) for a in (1, 2, 3, 4) for b in (1, 2, 3, 4)] + [(a, b) for a in (1, 2, 3) for b in (-1, -2)]
    out = []

    def t(c, v):
        return v if c == 1 else "%d*%s" % (c, v)

    for a, b in pairs:
        expr = "O[q] = I[%s + %s] * F[s]" % (t(a, "q"), t(b, "s"))
        decl = {"I": ["W"], "F": ["S"], "O": ["Q"]}
        # extent of the accessed rank: the largest index a*(Q-1) + max(b, 0)*(S-1), plus one (negative indices simply do not exist)
        def wext(Q, S):
            return a * (Q - 1) + max(b, 0) * (S - 1) + 1
        cfgs = [{"Q": Q, "S": S, "W": wext(Q, S)} for Q, S in ([(3, 2), (4, 3)] if q else [(3, 2), (4, 3), (5, 3)])]
        for lo in (["Q", "S"], ["S", "Q"], ["W", "Q"], ["W", "S"], ["Q", "W"], ["S", "W"], None):
            y = mk_yaml(decl, [expr], lo={"O": lo} if lo else None)
            out.append({"yaml": y, "configs": cfgs, "family": "affine-conv1", "key": y, "coeffs": (a, b)})
        for pstr, fam in (("uniform_shape(2)", "conv-us"), ("nway_shape(2)", "conv-nw")) + ((() if q else (("uniform_shape(3)", "conv-us"),))):
            for lo in (["Q1", "Q0", "S"], ["S", "Q1", "Q0"], ["Q1", "S", "Q0"], ["Q1", "W0", "Q0"]):
                y = mk_yaml(decl, [expr], part={"O": {"Q": [pstr], "W": ["follow(Q)"]}}, lo={"O": lo})
                cf = [{"Q": Q, "S": S, "W": wext(Q, S)} for Q, S in ([(4, 2), (5, 3)] if q else [(3, 2), (4, 2), (5, 3)])]
                out.append({"yaml": y, "configs": cf, "family": fam, "key": y, "coeffs": (a, b), "lo": lo})
    # masked convolution: a further operand indexed directly by the (partitioned) output rank, co-iterated with the projected input
    for a, b in ((1, 1), (2, 1)):
        expr = "O[q] = I[%s + %s] * F[s] * B[q]" % (t(a, "q"), t(b, "s"))
        decl = {"I": ["W"], "F": ["S"], "B": ["Q"], "O": ["Q"]}
        for lo in (["Q", "S"], ["W", "Q"], None):
            y = mk_yaml(decl, [expr], lo={"O": lo} if lo else None)
            out.append({"yaml": y, "configs": [{"Q": 4, "S": 2, "W": a * 3 + b + 1}], "family": "affine-conv1-mask", "key": y, "coeffs": (a, b)})
        for lo in (["Q1", "Q0", "S"], ["Q1", "S", "Q0"], ["Q1", "W0", "Q0"]):
            y = mk_yaml(decl, [expr], part={"O": {"Q": ["uniform_shape(2)"], "W": ["follow(Q)"]}}, lo={"O": lo})
            out.append({"yaml": y, "configs": [{"Q": 4, "S": 2, "W": a * 3 + b + 1}, {"Q": 6, "S": 2, "W": a * 5 + b + 1}], "family": "conv-us-mask", "key": y,
                        "coeffs": (a, b), "lo": lo, "cap": 60})
    # the partitioned rank is not the output's: the filter rank S (the projected loop rank Q stays whole), or the input's own rank W
    # (input-stationary, tiled input)
    for a, b in ((1, 1), (2, 1)):
        expr = "O[q] = I[%s + %s] * F[s]" % (t(a, "q"), t(b, "s"))
        decl = {"I": ["W"], "F": ["S"], "O": ["Q"]}
        for part, los in (({"S": ["uniform_shape(2)"]}, (["S1", "S0", "Q"], ["S1", "Q", "S0"], ["Q", "S1", "S0"], ["S1", "W", "S0"])),
                          ({"W": ["uniform_shape(2)"]}, (["W1", "W0", "Q"], ["W1", "W0", "S"], ["W1", "Q", "W0"])),
                          # output rank and filter rank both tiled: the projection has two partitioned symbols
                          ({"Q": ["uniform_shape(2)"], "W": ["follow(Q)"], "S": ["uniform_shape(2)"]}, (["Q1", "S1", "Q0", "S0"], ["Q1", "S1", "S0", "Q0"], ["S1", "Q1", "W0", "Q0"]))):
            for lo in los:
                y = mk_yaml(decl, [expr], part={"O": part}, lo={"O": lo})
                out.append({"yaml": y, "configs": [{"Q": 4, "S": 3, "W": a * 3 + b * 2 + 1}], "family": "conv-other-rank", "key": y, "coeffs": (a, b), "lo": lo, "cap": 40})
    # three-term index expressions (the halo of the follower is a sum: post_halo=-2 + S + T)
    decl3 = {"I": ["W"], "F": ["S"], "G": ["T"], "O": ["Q"]}
    for expr3, wx in (("O[q] = I[q + s + t] * F[s] * G[t]", lambda Q, S, T: Q + S + T - 2), ("O[q] = I[2*q + s + 2*t] * F[s] * G[t]", lambda Q, S, T: 2 * (Q - 1) + (S - 1) + 2 * (T - 1) + 1),
                      ("O[q] = I[q + -1*s + -1*t] * F[s] * G[t]", lambda Q, S, T: Q), ("O[q] = I[q + s + -1*t] * F[s] * G[t]", lambda Q, S, T: Q + S - 1)):
        for lo in (["Q", "S", "T"], ["S", "T", "Q"], ["W", "S", "T"], None):
            y = mk_yaml(decl3, [expr3], lo={"O": lo} if lo else None)
            out.append({"yaml": y, "configs": [{"Q": 3, "S": 2, "T": 2, "W": wx(3, 2, 2)}], "family": "affine-conv1-3term", "key": y, "coeffs": (1, 1), "cap": 40})
        for lo in (["Q1", "Q0", "S", "T"], ["Q1", "S", "T", "Q0"], ["S", "Q1", "T", "Q0"], ["Q1", "W0", "T", "Q0"]):
            y = mk_yaml(decl3, [expr3], part={"O": {"Q": ["uniform_shape(2)"], "W": ["follow(Q)"]}}, lo={"O": lo})
            out.append({"yaml": y, "configs": [{"Q": 4, "S": 2, "T": 2, "W": wx(4, 2, 2)}], "family": "conv-us-3term", "key": y, "coeffs": (1, 1), "lo": lo, "cap": 40})
    # two levels on the index-math rank (known finding KF-CONV-2LEVEL; kept so that the finding is re-derived on every run)
    for lo in (["Q2", "Q1", "W0", "Q0"], ["Q2", "Q1", "S", "Q0"], ["S", "Q2", "Q1", "Q0"]):
        y = mk_yaml({"I": ["W"], "F": ["S"], "O": ["Q"]}, ["O[q] = I[q + s] * F[s]"], part={"O": {"Q": ["uniform_shape(4)", "uniform_shape(2)"], "W": ["follow(Q)"]}}, lo={"O": lo})
        out.append({"yaml": y, "configs": [{"Q": 8, "S": 2, "W": 9}], "family": "conv-us2", "key": y, "coeffs": (1, 1), "lo": lo, "cap": 30})
    return out



def conv_mask_core():
    """Deterministic core: index arithmetic over a shape-partitioned rank with a further operand that is indexed directly by that rank (not
    projected), one-dimensional or carrying further ranks (flattened or not, so that its fiber at the partitioned rank is produced by
    a swizzle / flatten later than the projected input's)."""
    out = [dict(sp) for sp in conv_systematic("quick") if sp["family"] == "conv-us-mask"]
    cases = [("O[n, m, q] = I[q + s] * F[s] * G[n, m, q]", {"I": ["W"], "F": ["S"], "G": ["N", "M", "Q"], "O": ["N", "M", "Q"]}, {"(N, M)": ["flatten()"]},
              (["Q1", "NM", "S", "Q0"], ["Q1", "S", "NM", "Q0"], ["NM", "Q1", "S", "Q0"], ["Q1", "NM", "Q0", "S"]), {"N": 2, "M": 2}),
             ("O[n, q] = I[q + s] * F[s] * G[n, q]", {"I": ["W"], "F": ["S"], "G": ["N", "Q"], "O": ["N", "Q"]}, {},
              (["Q1", "N", "S", "Q0"], ["Q1", "S", "N", "Q0"], ["N", "Q1", "S", "Q0"], ["Q1", "N", "W0", "Q0"]), {"N": 2}),
             ("O[q, n] = I[q + s] * F[s] * G[q, n]", {"I": ["W"], "F": ["S"], "G": ["Q", "N"], "O": ["Q", "N"]}, {},
              (["Q1", "S", "Q0", "N"], ["Q1", "Q0", "S", "N"]), {"N": 2})]
    for expr, decl, extra, los, ext in cases:
        for lo in los:
            part = dict({"Q": ["uniform_shape(2)"], "W": ["follow(Q)"]}, **extra)
            y = mk_yaml(decl, [expr], part={"O": part}, lo={"O": lo})
            out.append({"yaml": y, "configs": [dict({"Q": 4, "S": 2, "W": 5}, **ext)], "family": "conv-us-mask", "key": y, "coeffs": (1, 1), "lo": lo, "cap": 40})
    return out



def double_flat_core():
    """Deterministic core: two flattenings of one tensor (the second one of the lower half of a shape-split rank, order-preserving or
    not), one split and one flattening that needs a real swizzle, a flattening of non-adjacent ranks."""
    out = []
    d4 = {"A": ["K", "M", "N", "O"], "B": ["K", "M", "N", "O"], "Z": ["K", "M", "N", "O"]}
    e4 = "Z[k, m, n, o] = A[k, m, n, o] * B[k, m, n, o]"
    cases = [(d4, e4, {"(K, M)": ["flatten()"], "N": ["uniform_shape(2)"], "(N0, O)": ["flatten()"]}, ["KM", "N1", "N0O"]),
             (d4, e4, {"(K, M)": ["flatten()"], "(N, O)": ["flatten()"]}, ["KM", "NO"]),
             (d4, e4, {"N": ["uniform_shape(2)"], "(M, N0)": ["flatten()"]}, ["K", "N1", "MN0", "O"]),
             (d4, e4, {"(M, N)": ["flatten()"], "K": ["uniform_shape(2)"], "(K0, O)": ["flatten()"]}, ["K1", "MN", "K0O"]),
             ({"A": ["M", "K", "N"], "Z": ["M", "K", "N"]}, "Z[m, k, n] = A[m, k, n]", {"(M, N)": ["flatten()"]}, ["K", "MN"])]
    for decl, expr, part, lo in cases:
        y = mk_yaml(decl, [expr], part={"Z": part}, lo={"Z": lo})
        out.append({"yaml": y, "configs": [{r: (3 if r == "N" and len(decl["Z"]) == 4 else 2) for r in decl["Z"]}], "family": "double-flatten-core", "key": y, "cap": 16})
    return out



def frac_follow_core():
    """Deterministic core: the rank written with an integer stride is the one that is partitioned, and the other input's rank follows it
    through the fractional coefficient (Z[m] = A[2 * m] * B[m], K: [...], M: [follow(K)], m = k / 2)."""
    out = []
    for a in (2, 4):
        for d in ("nway_shape(2)", "nway_shape(3)", "uniform_shape(%d)" % (2 * a), "nway_shape(2), uniform_shape(%d)" % a):
            nlev = d.count("(")
            for lo in ([["M%d" % i for i in range(nlev, -1, -1)]] + ([None] if nlev == 1 else [])):
                y = mk_yaml({"A": ["K"], "B": ["M"], "Z": ["M"]}, ["Z[m] = A[%d*m] * B[m]" % a], part={"Z": {"K": [d], "M": ["follow(K)"]}}, lo={"Z": lo} if lo else None)
                out.append({"yaml": y, "configs": [{"M": M, "K": a * (M - 1) + 1} for M in (3, 5)], "family": "affine-frac-follow", "key": y, "coeffs": (a, 0), "cap": 40})
    return out



def occ_flat_core():
    """Deterministic core: flattening of a level that exists only after occupancy partitioning (K: [uniform_occupancy(..)], (K0, M):
    [flatten()]): the flatten is applied inside / after the dynamic split (FlowGraph.__build_dyn_part with a tuple)."""
    out = []
    cases = [({"A": ["K", "M"], "B": ["K", "N"], "Z": ["M", "N"]}, "Z[m, n] = A[k, m] * B[k, n]", "M", "N"),
             ({"A": ["K", "M"], "B": ["K"], "Z": ["M"]}, "Z[m] = A[k, m] * B[k]", "M", None),
             ({"A": ["K", "M"], "B": ["K", "M"], "Z": ["M"]}, "Z[m] = A[k, m] * B[k, m]", "M", None)]
    for decl, expr, fr, other in cases:
        for leader, size in (("A", 2), ("B", 1)):
            for pair in (("K0", fr), (fr, "K0")):
                fl = "".join(pair)
                rest = [other] if other else []
                for lo in (["K1", fl] + rest, rest + ["K1", fl]) if rest else (["K1", fl],):
                    part = {"K": ["uniform_occupancy(%s.%d)" % (leader, size)], "(%s, %s)" % pair: ["flatten()"]}
                    y = mk_yaml(updecl(decl) if False else decl, [expr], part={"Z": part}, lo={"Z": lo})
                    out.append({"yaml": y, "configs": [{"K": 4, "M": 2, "N": 2}], "family": "occupancy-flatten-core", "key": y, "cap": 30})
    return out


def occ_core():
    """Fixed core for occupancy partitioning: two levels with the same and with different leaders, alone and beneath a shape split."""
    out = []
    decl = {"A": ["K", "M"], "B": ["K", "N"], "Z": ["M", "N"]}
    expr = "Z[m, n] = A[k, m] * B[k, n]"
    for st in (["uniform_occupancy(A.3)", "uniform_occupancy(B.2)"], ["uniform_occupancy(B.3)", "uniform_occupancy(A.2)"], ["uniform_occupancy(A.2)", "uniform_occupancy(A.1)"],
               ["uniform_shape(4)", "uniform_occupancy(B.2)", "uniform_occupancy(A.1)"], ["uniform_shape(4)", "uniform_occupancy(A.3)", "uniform_occupancy(B.2)"]):
        lv = levels("K", len(st))
        for lo in (lv[:1] + ["M", "N"] + lv[1:], ["M"] + lv[:-1] + ["N"] + lv[-1:], lv + ["M", "N"]):
            y = mk_yaml(decl, [expr], part={"Z": {"K": st}}, lo={"Z": lo})
            out.append({"yaml": y, "configs": [{"K": 5, "M": 2, "N": 2}], "family": "occupancy-core", "key": y, "cap": 40})
    return out



def flat_split_core():
    """Deterministic core: an output with a flattened pair AND an independent split of another rank in the same partitioning round, the split
    to the left / to the right of the pair, by shape / by occupancy (unpartitioning must undo both, in whatever order the sets iterate)."""
    out = []
    expr, decl = "Z[m, n, p, q] = A[m, n, p, q] * B[m, n, p, q]", {"A": "mnpq", "B": "mnpq", "Z": "mnpq"}
    for split, pair in (("M", ("N", "P")), ("Q", ("N", "P")), ("Q", ("M", "N")), ("M", ("P", "Q"))):
        for how in ("uniform_shape(2)", "uniform_occupancy(A.2)", "nway_shape(2)"):
            fl = "".join(pair)
            part = {split: [how], "(%s, %s)" % pair: ["flatten()"]}
            lo = []
            for r in "MNPQ":
                if r == split:
                    lo += [r + "1", r + "0"]
                elif r == pair[0]:
                    lo.append(fl)
                elif r not in pair:
                    lo.append(r)
            y = mk_yaml(updecl(decl), [expr], part={"Z": part}, lo={"Z": lo})
            out.append({"yaml": y, "configs": [{"M": 3, "N": 2, "P": 2, "Q": 3}], "family": "flatten-split-core", "key": y, "cap": 24})
    return out


F3BASES = [
    ("C[i, r] = T[i, j, k] * B[j, k, r]", {"T": "ijk", "B": "jkr", "C": "ir"}, "T"),
    ("Z[m, n] = A[j, k, m] * B[j, k, n]", {"A": "jkm", "B": "jkn", "Z": "mn"}, "A"),
    ("Z[m] = A[j, k, m] * B[k, j]", {"A": "jkm", "B": "kj", "Z": "m"}, "A"),
    ("Z[q, m, n, j] = A[q, m, n, j] * B[q]", {"A": "qmnj", "B": "q", "Z": "qmnj"}, "A"),
    ("Z[m, n, j] = A[m, n, j] * B[m, n, j]", {"A": "mnj", "B": "mnj", "Z": "mnj"}, "A"),
]


def gen_flat3(rng):
    """flatten() of three ranks of one tensor while another tensor holds two of them (it is then looked up by coordinate over two ranks
    at once), optionally followed by occupancy partitioning of the flattened rank."""
    expr, decl, T = rng.choice(F3BASES)
    out = expr.split("[")[0]
    vs = sorted(set("".join(decl.values())))
    tup = [c.upper() for c in decl[T]]
    if len(tup) > 3:
        tup = tup[-3:]
    if rng.random() < 0.3:
        rng.shuffle(tup)
    fname = "".join(tup)
    part = {"(%s)" % ", ".join(tup): ["flatten()"]}
    occ = rng.choice([0, 0, 1])
    if occ:
        part[fname] = ["uniform_occupancy(%s.%d)" % (T, rng.choice([2, 3]))]
    flevels = [fname + str(i) for i in range(occ, -1, -1)] if occ else [fname]
    others = [v.upper() for v in vs if v.upper() not in tup]
    lo = interleave(rng, [flevels] + [[o] for o in others])
    y = mk_yaml(updecl(decl), [expr], part={out: part}, lo={out: lo})
    return {"yaml": y, "configs": [{v.upper(): 2 for v in vs}], "family": "flatten3", "key": y, "cap": 30}


def gen_st_affine(rng):
    """Spacetime on Einsums with affine accesses, unpartitioned or with the index-math rank partitioned and the input following."""
    kind = rng.choice(["sub", "sub", "conv", "sub2"])
    if kind == "sub":
        a = rng.choice([2, 2, 3])
        decl, expr, out = {"A": ["K"], "Z": ["M"]}, "Z[m] = A[%d*m]" % a, "Z"
        ranks, partrank, follower = ["M"], "M", "K"
        cfg = {"M": 4, "K": a * 3 + 1}
    elif kind == "sub2":
        decl, expr, out = {"A": ["K", "N"], "B": ["N"], "Z": ["M", "N"]}, "Z[m, n] = A[2*m, n] * B[n]", "Z"
        ranks, partrank, follower = ["M", "N"], "M", "K"
        cfg = {"M": 3, "N": 2, "K": 5}
    else:
        decl, expr, out = {"I": ["W"], "F": ["S"], "O": ["Q"]}, "O[q] = I[q + s] * F[s]", "O"
        ranks, partrank, follower = ["Q", "S"], "Q", "W"
        cfg = {"Q": 4, "S": 2, "W": 5}
    part = {}
    lv = {r: [r] for r in ranks}
    if rng.random() < 0.7:
        part = {partrank: ["uniform_shape(%d)" % rng.choice([2, 3])], follower: ["follow(%s)" % partrank]}
        lv[partrank] = [partrank + "1", partrank + "0"]
    lo = interleave(rng, [lv[r] for r in ranks])
    space = [r for r in lo if rng.random() < 0.4]
    time_ = [r for r in lo if r not in space]

    def sty(r):
        return r + rng.choice(["", ".pos", ".coord", ".coord"])

    st = {out: {"space": [sty(r) for r in space], "time": [sty(r) for r in time_], "opt": "slip" if rng.random() < 0.3 else None}}
    y = mk_yaml(decl, [expr], part={out: part}, lo={out: lo}, st=st)
    return {"yaml": y, "configs": [cfg], "family": "spacetime-affine", "key": y, "stamped": True, "no_st_yaml": mk_yaml(decl, [expr], part={out: part}, lo={out: lo})}



def st_conv_core():
    """Deterministic core: spacetime on a convolution whose index-math rank is shape-partitioned (input following), every legal loop order
    (incl. the input's own lower level W0) x stamp style x slip; and on the masked convolution."""
    out = []
    cases = [({"I": ["W"], "F": ["S"], "O": ["Q"]}, "O[q] = I[q + s] * F[s]", (["Q1", "Q0", "S"], ["Q1", "S", "Q0"], ["S", "Q1", "Q0"], ["Q1", "W0", "Q0"])),
             ({"I": ["W"], "F": ["S"], "B": ["Q"], "O": ["Q"]}, "O[q] = I[q + s] * F[s] * B[q]", (["Q1", "S", "Q0"], ["Q1", "W0", "Q0"]))]
    cases = [c + ({"Q": ["uniform_shape(2)"], "W": ["follow(Q)"]},) for c in cases]
    # the input's own rank tiled (input-stationary), the filter rank tiled
    cases += [({"I": ["W"], "F": ["S"], "O": ["Q"]}, "O[q] = I[q + s] * F[s]", (["W1", "W0", "Q"], ["W1", "W0", "S"]), {"W": ["uniform_shape(2)"]}),
              ({"I": ["W"], "F": ["S"], "O": ["Q"]}, "O[q] = I[q + s] * F[s]", (["S1", "S0", "Q"], ["S1", "Q", "S0"]), {"S": ["uniform_shape(2)"]})]
    for decl, expr, los, pp in cases:
        for lo in los:
            for sty in (".pos", ".coord", ""):
                for slip in (False, True):
                    part = {"O": pp}
                    st = {"O": {"space": [], "time": [r + sty for r in lo], "opt": "slip" if slip else None}}
                    y = mk_yaml(decl, [expr], part=part, lo={"O": lo}, st=st)
                    out.append({"yaml": y, "configs": [{"Q": 4, "S": 2, "W": 5}], "family": "spacetime-conv-core", "key": y, "stamped": True,
                                "no_st_yaml": mk_yaml(decl, [expr], part=part, lo={"O": lo}), "coeffs": (1, 1), "lo": lo, "cap": 24})
    return out


def rename_rank(sp, old, new):
    """The same specification with rank `old` called `new` (ranks may be called anything: I, P, ... -- names that collide with the
    compiler's own suffix conventions are of particular interest)."""
    y = sp["yaml"]
    head, rest = y.split("  expressions:\n", 1)
    exprs, tail = rest.split("mapping:", 1)
    exprs = re.sub(r"(?<![A-Za-z0-9_])%s(?![A-Za-z0-9_(\[])" % old.lower(), new.lower(), exprs)
    y2 = head + "  expressions:\n" + exprs + "mapping:" + tail
    y2 = re.sub(r"(?<![a-z])%s(?=[A-Z0-9, \]\).:\n]|$)" % old, new, y2)
    out = dict(sp, yaml=y2, key=sp["key"] + "#%s->%s" % (old, new), family=sp["family"] + "-renamed")
    out["configs"] = [{(k.replace(old, new) if re.fullmatch(r"[A-Z]+[0-9]*", k) and k not in ("A", "B", "C", "D", "E", "Z") else k): v for k, v in c.items()} for c in sp["configs"]]
    if "no_st_yaml" in out:
        out.pop("no_st_yaml")
    return out


def renamed(gen, old="M", new="I"):
    def g(rng):
        sp = gen(rng)
        return None if sp is None else rename_rank(sp, old, new)
    return g


def gen_cascade_conv(rng):
    """Cascades in which an Einsum with index arithmetic precedes Einsums that re-use its rank names without that relation."""
    decl = {"I": ["W"], "F": ["S"], "O": ["Q"], "G": ["Q"], "T": ["Q"], "U": ["Q", "S"], "Z": ["Q"]}
    exprs = ["O[q] = I[q + s] * F[s]"]
    part, lo = {}, {}
    n = rng.choice([1, 2, 2])
    prev = "O"
    for i in range(n):
        out = "Z" if i == n - 1 else "T"
        kind = rng.choice(["point", "outer", "scale"])
        if kind == "point":
            exprs.append("%s[q] = %s[q] * G[q]" % (out, prev))
            vars_ = ["Q"]
        elif kind == "outer" and out == "Z":
            exprs.append("U[q, s] = %s[q] * F[s]" % prev)
            out = "U"
            vars_ = ["Q", "S"]
        else:
            exprs.append("%s[q] = %s[q] * b" % (out, prev))
            vars_ = ["Q"]
        c = rng.random()
        if c < 0.4:
            part[out] = {"Q": ["uniform_shape(%d)" % rng.choice([2, 3])]}
        elif c < 0.6:
            part[out] = {"Q": ["uniform_occupancy(%s.%d)" % (prev, rng.choice([1, 2]))]}
        elif c < 0.7 and len(vars_) == 2:
            part[out] = {"(Q, S)": ["flatten()"]}
        if out in part and "(Q, S)" not in part[out]:
            lv = [levels(v, len(part[out].get(v, []))) for v in vars_]
            lo[out] = interleave(rng, lv)
        prev = out if out != "U" else prev
    used = set(re.findall(r"\b([A-Z])\[", " ".join(exprs)))
    decl = {t: r for t, r in decl.items() if t in used}
    y = mk_yaml(decl, exprs, part=part, lo=lo)
    return {"yaml": y, "configs": [{"Q": 4, "S": 2, "W": 5}], "family": "cascade-conv", "key": y}


def gen_st_flat(rng):
    """Spacetime on specifications with a flattened rank (optionally occupancy-partitioned): the flattened rank may be stamped by
    position or coordinate, in space or time."""
    sp = gen_flat(rng)
    d = __import__("execpipe").load_yaml(sp["yaml"])
    lo = d["mapping"]["loop-order"]["Z"]
    space = [r for r in lo if rng.random() < 0.35]
    time_ = [r for r in lo if r not in space]

    def sty(r):
        return r + rng.choice(["", ".pos", ".pos", ".coord"])

    st = "  spacetime:\n    Z:\n      space: [%s]\n      time: [%s]\n" % (", ".join(sty(r) for r in space), ", ".join(sty(r) for r in time_))
    if rng.random() < 0.25:
        st += "      opt: slip\n"
    return dict(sp, yaml=sp["yaml"] + st, family="spacetime-flatten", key=sp["key"] + st, stamped=True, no_st_yaml=sp["yaml"])



def st_flat_core():
    """Deterministic core of spacetime-on-flattened-rank: every base (one / two co-iterated inputs, with / without the output at the
    flattened rank) x (flatten alone, flatten + occupancy) x stamp style (position, coordinate, default) x (all in time, innermost
    flattened level in space).  A position stamp on a tuple-coordinate rank makes the loop an enumerate() over a nested payload."""
    out = []
    for expr, decl in FBASES:
        vs = sorted(set("".join(decl.values())))
        for occ in (0, 1):
            for sty in (".pos", ".coord", ""):
                for inner_space in (False, True):
                    part = {"(K, M)": ["flatten()"]}
                    if occ:
                        part["KM"] = ["uniform_occupancy(A.2)"]
                    fl = ["KM1", "KM0"] if occ else ["KM"]
                    lo = fl + [v.upper() for v in vs if v not in "km"]
                    stamp = [l + (sty if l in fl else "") for l in lo]
                    space = [x for x in stamp if inner_space and x.startswith(fl[-1])]
                    time_ = [x for x in stamp if x not in space]
                    y0 = mk_yaml(updecl(decl), [expr], part={"Z": part}, lo={"Z": lo})
                    y = y0 + "  spacetime:\n    Z:\n      space: [%s]\n      time: [%s]\n" % (", ".join(space), ", ".join(time_))
                    out.append({"yaml": y, "configs": [{v.upper(): 2 + (i % 2) for i, v in enumerate(vs)}], "family": "spacetime-flatten", "key": y,
                                "stamped": True, "no_st_yaml": y0})
    return out
