#!/bin/sh
# seed sweep over the quick checks: any VIOLATION / MACHINERY line on the unchanged tree is a bug of the machinery
# usage: harness/sweep.sh "1 2 3" [tier]
cd "$(dirname "$0")/.."
for s in $1; do
  for c in C01 C02 C03 C04 C05 C06 C07 C08 C09 C10 C11 C12 C13 C14 C15 C16 C17 C18 C19; do
    VERIF_SEED=$s ./check $c --tier ${2:-quick} | grep -E "VIOLATION|MACHINERY|quick:|thorough:" | cut -c1-200 | sed "s/^/seed=$s /"
  done
done
