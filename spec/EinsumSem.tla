------------------------------ MODULE EinsumSem -----------------------------
(* Mathematical meaning of an Einsum and of a cascade (DESIGN 3.4) -- the oracle of the          *)
(* execution properties.  The descriptor `es` comes from the generating structure / an           *)
(* independent reader of the Einsum text, never from the compiler's parser or IR.                 *)
(*   es.out  = [name, idx : Seq(var)]                                                             *)
(*   es.terms[j] = [kind : "times"|"take", sel, facs : Seq(factor)]                               *)
(*   factor  = [k |-> "t", name, idx : Seq(affine)] | [k |-> "v", name]   affine = Seq([c, v])    *)
(*   es.vars, es.varext (var -> extent name), es.maxext                                           *)
(* T maps tensor names to [declared-order coordinate tuples -> non-zero Int]; C maps extent and   *)
(* scalar names to Int.                                                                          *)
EXTENDS HFValues
TVal(T, c) == IF c \in DOMAIN T THEN T[c] ELSE 0
AffVal(a, f) == SumOver(1..Len(a), [i \in 1..Len(a) |-> a[i].c * f[a[i].v]])
FacVal(fc, f, T, C) == IF fc.k = "v" THEN C[fc.name]
                       ELSE TVal(T[fc.name], [i \in 1..Len(fc.idx) |-> AffVal(fc.idx[i], f)])
RECURSIVE ProdSeq(_)
ProdSeq(s) == IF s = <<>> THEN 1 ELSE Head(s) * ProdSeq(Tail(s))
(* take(f1..fn, i) is f_i where all f_j are non-zero, else 0 *)
TermVal(t, f, T, C) == LET vals == [i \in 1..Len(t.facs) |-> FacVal(t.facs[i], f, T, C)] IN
                       IF t.kind = "times" THEN ProdSeq(vals)
                       ELSE IF \A i \in 1..Len(vals) : vals[i] # 0 THEN vals[t.sel] ELSE 0
EinsumEval(es, T, C) ==
  LET VS == SeqSet(es.vars)
      Asg == {f \in [VS -> 0..es.maxext] : \A v \in VS : f[v] < C[es.varext[v]]}
      outOf(f) == [i \in 1..Len(es.out.idx) |-> f[es.out.idx[i]]]
      pts == {outOf(f) : f \in Asg}
      tot(p) == SumOver({f \in Asg : outOf(f) = p},
                        [f \in Asg |-> SumOver(1..Len(es.terms), [j \in 1..Len(es.terms) |-> TermVal(es.terms[j], f, T, C)])])
  IN [p \in {q \in pts : tot(q) # 0} |-> tot(p)]
(* sequential composition: later Einsums read earlier outputs; a redefined tensor is overwritten *)
RECURSIVE Cascade(_, _, _, _)
Cascade(es, i, T, C) == IF i > Len(es) THEN T
                        ELSE Cascade(es, i + 1, Bind(T, es[i].out.name, EinsumEval(es[i], T, C)), C)
(* the value of every tensor after the first n Einsums *)
CascadeUpTo(es, n, T, C) == Cascade(SubSeq(es, 1, n), 1, T, C)
=============================================================================
