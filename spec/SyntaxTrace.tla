----------------------------- MODULE SyntaxTrace -----------------------------
(* C17 verdicts: each record is one sentence of Syntax.tla replayed into the real parser class; *)
(* `got` is what an independent extractor read back from the parse tree (rejected: the parser  *)
(* raised; ~readable: the parser returned a tree the extractor cannot walk).  In-grammar sentences must be recovered exactly; near-misses must be          *)
(* rejected.                                                                                     *)
EXTENDS Naturals, Sequences, TLC, Json, IOUtils
Recs == JsonDeserialize(IOEnv.SYNTAX_BATCH).recs
VARIABLE r
Init == r \in 1..Len(Recs)
Next == UNCHANGED r
Spec == Init /\ [][Next]_r
R == Recs[r]
Clause == IF R.ok /\ R.rejected THEN "a sentence of the grammar was rejected"
          ELSE IF R.ok /\ ~R.readable THEN "a sentence of the grammar was accepted but the tree returned cannot be read back (malformed tree)"
          ELSE IF R.ok /\ R.got # R.expect THEN "parsed structure differs from the structure written"
          ELSE IF ~R.ok /\ ~R.rejected THEN "text outside the grammar was accepted"
          ELSE "ok"
Verdict == Clause # "ok" => PrintT("SYNTAX|" \o ToString(r) \o "|" \o Clause)
=============================================================================
