------------------------------- MODULE TreeEq -------------------------------
(* C09 batch: for every compiled program, the statement tree the translator built (tree) and the *)
(* tree CPython parses from the emitted text (text), both as HF-IR.  One state per statement.    *)
(* Kind "prog": statement sequences must be equal after Canon and every tree-side statement       *)
(* Faithful.  Kind "calib": single expressions enumerated by PrinterGen; the printed-and-reparsed *)
(* tree equals the built tree exactly when Printer!Faithful says so (binds the precedence table  *)
(* of Printer.tla to CPython's grammar and to the real printer).                                 *)
EXTENDS Printer, TLC, Json, IOUtils
Batch == JsonDeserialize(IOEnv.TREE_BATCH).progs
VARIABLES pid, k
Init == pid \in 1..Len(Batch) /\ k = 1
Next == k < Len(Batch[pid].tree) /\ k' = k + 1 /\ UNCHANGED pid
Spec == Init /\ [][Next]_<<pid, k>>
P == Batch[pid]
SameLength == Len(P.tree) = Len(P.text)
Same == CanonI(P.tree[k]) = CanonI(P.text[k])
Verdict ==
  IF P.kind = "prog" THEN
     (IF ~SameLength THEN (k > 1 \/ PrintT("TREE|" \o ToString(pid) \o "|0|different number of statements"))
      ELSE IF ~Same THEN PrintT("TREE|" \o ToString(pid) \o "|" \o ToString(k) \o "|printed statement denotes a different tree")
      ELSE IF ~FaithfulI(P.tree[k]) THEN PrintT("TREE|" \o ToString(pid) \o "|" \o ToString(k) \o "|statement equal only by accident: not faithful by the precedence criterion")
      ELSE TRUE)
  ELSE (IF FaithfulI(P.tree[k]) /\ ~Same THEN PrintT("TREE|" \o ToString(pid) \o "|" \o ToString(k) \o "|faithful tree printed to text that denotes a different tree")
        ELSE IF ~FaithfulI(P.tree[k]) /\ Same THEN PrintT("CALIB|" \o ToString(pid) \o "|" \o ToString(k) \o "|criterion stricter than CPython")
        ELSE TRUE)
=============================================================================
