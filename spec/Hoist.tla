-------------------------------- MODULE Hoist --------------------------------
(* C10 (and the schedule half of C08): transcription of FlowGraph.__sort -- as "any linear      *)
(* extension of the flow graph" -- and of FlowGraph.__hoist (teaal/ir/flow_graph.py), statement  *)
(* by statement, over flow graphs exported from the implementation through the public IR API.   *)
(*   G.n nodes 1..n, G.edges, G.loops / G.ends (ids of Loop / EndLoop nodes in loop order),      *)
(*   G.body (the update), G.desc[k] = proper descendants of loop k (exported reachability is    *)
(*   re-derived here from the edges: Desc), G.pre = the order __sort produced (possibly         *)
(*   injected), G.post = the order the real __hoist produced from it, G.mode:                    *)
(*   "real"  start from G.pre and require the transcription to reproduce G.post (conformance);  *)
(*   "free"  TLC chooses the linear extension (the tie-break quantifier of the property).       *)
EXTENDS Naturals, Sequences, FiniteSets, TLC, Json, IOUtils, SequencesExt
Gs == JsonDeserialize(IOEnv.HOIST_BATCH).graphs
VARIABLES gid, sorted, placed, r, lpos, i, bound, pc, lin     \* lin: the linear extension hoisting started from
vars == <<gid, sorted, placed, r, lpos, i, bound, pc, lin>>
G == Gs[gid]
Nodes == 1..G.n
Edges == {<<G.edges[k][1], G.edges[k][2]>> : k \in 1..Len(G.edges)}
Loops == G.loops
Preds(n) == {e[1] : e \in {d \in Edges : d[2] = n}}
Succs(n) == {e[2] : e \in {d \in Edges : d[1] = n}}
RECURSIVE Reach(_, _)
Reach(front, seen) == LET nxt == (UNION {Succs(n) : n \in front}) \ seen IN IF nxt = {} THEN seen ELSE Reach(nxt, seen \cup nxt)
Desc(n) == Reach({n}, {})                    \* proper descendants (nx.descendants)
Pos(s, x) == CHOOSE k \in 1..Len(s) : s[k] = x
Move(s, k, to) == SubSeq(s, 1, to - 1) \o <<s[k]>> \o SubSeq(s, to, k - 1) \o SubSeq(s, k + 1, Len(s))
Init == /\ gid \in 1..Len(Gs)
        /\ IF Gs[gid].mode = "real"
           THEN sorted = Gs[gid].pre /\ placed = 1..Gs[gid].n /\ pc = "outer" /\ bound = Len(Gs[gid].pre)
           ELSE sorted = <<>> /\ placed = {} /\ pc = "sort" /\ bound = 0
        /\ r = Len(Gs[gid].loops) /\ lpos = 0 /\ i = 0
        /\ lin = IF Gs[gid].mode = "real" THEN Gs[gid].pre ELSE <<>>
\* __sort: any topological order
Sort == /\ pc = "sort"
        /\ IF placed = Nodes THEN pc' = "outer" /\ bound' = Len(sorted) /\ lin' = sorted /\ UNCHANGED <<sorted, placed>>
           ELSE /\ UNCHANGED lin
                /\ \E n \in {m \in Nodes \ placed : Preds(m) \subseteq placed} :
                      sorted' = Append(sorted, n) /\ placed' = placed \cup {n}
                /\ UNCHANGED <<pc, bound>>
        /\ UNCHANGED <<r, lpos, i>>
\* __hoist: for rank in reversed(loop order): ...
Outer == /\ pc = "outer"
         /\ IF r >= 1 THEN /\ lpos' = Pos(sorted, Loops[r]) /\ i' = Pos(sorted, Loops[r]) + 1 /\ pc' = "inner" /\ UNCHANGED <<sorted, r, bound>>
            ELSE pc' = "Done" /\ UNCHANGED <<sorted, r, lpos, i, bound>>
         /\ UNCHANGED <<placed, lin>>
\*     while i < end: if sorted[i] not in descendants: move it in front of the loop
Inner == /\ pc = "inner"
         /\ IF i <= bound
            THEN /\ IF sorted[i] \notin Desc(Loops[r]) THEN sorted' = Move(sorted, i, lpos) /\ lpos' = lpos + 1 ELSE UNCHANGED <<sorted, lpos>>
                 /\ i' = i + 1 /\ UNCHANGED <<r, bound, pc>>
            ELSE /\ bound' = lpos - 1 /\ r' = r - 1 /\ pc' = "outer" /\ UNCHANGED <<sorted, lpos, i>>
         /\ UNCHANGED <<placed, lin>>
Next == (Sort \/ Outer \/ Inner) /\ UNCHANGED gid
Spec == Init /\ [][Next]_vars
Finished == pc = "Done"
-----------------------------------------------------------------------------
(* C10 on the final order *)
IsPerm == Len(sorted) = G.n /\ {sorted[k] : k \in 1..Len(sorted)} = Nodes
EdgesForward == \A e \in Edges : Pos(sorted, e[1]) < Pos(sorted, e[2])
Nested == \A a, b \in 1..Len(Loops) : a < b =>
            (Pos(sorted, Loops[a]) < Pos(sorted, Loops[b]) /\ Pos(sorted, G.ends[b]) < Pos(sorted, G.ends[a]))
BodyInnermost == \A b \in 1..Len(Loops) : Pos(sorted, Loops[b]) < Pos(sorted, G.body) /\ Pos(sorted, G.body) < Pos(sorted, G.ends[b])
\* a statement placed above (before) a loop does not transitively depend on that loop
OutsideIndependent == \A k \in 1..Len(Loops) : \A n \in Nodes : Pos(sorted, n) < Pos(sorted, Loops[k]) => n \notin Desc(Loops[k])
MatchesImpl == G.mode = "real" => sorted = G.post
Clause == IF ~IsPerm THEN "the order is not a permutation of the statements"
          ELSE IF ~MatchesImpl THEN "real hoist result differs from the transcription"
          ELSE IF ~EdgesForward THEN "a statement precedes one it depends on"
          ELSE IF ~Nested THEN "loops not nested in loop order"
          ELSE IF ~BodyInnermost THEN "update not innermost"
          ELSE IF ~OutsideIndependent THEN "a statement hoisted above a loop depends on that loop"
          ELSE "ok"
Verdict == Finished => (IF Clause # "ok" THEN PrintT("HOIST|" \o ToString(gid) \o "|" \o Clause) ELSE TRUE)
\* generator for the spec -> code direction: the linear extension TLC chose and the order the transcription derived from it
EmitOrder == (Finished /\ G.mode = "free") => PrintT("ORDER|" \o ToString(gid) \o "|" \o ToJson([pre |-> lin, post |-> sorted]))
\* hoisting never reorders two statements one of which depends on the other (action property)
KeepsDependences == [][(pc \in {"outer", "inner"}) => \A e \in Edges : (e[1] \in placed /\ e[2] \in placed) => Pos(sorted', e[1]) < Pos(sorted', e[2])]_vars
=============================================================================
