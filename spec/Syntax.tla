------------------------------- MODULE Syntax -------------------------------
(* C17: the five grammars as generators.  Every sentence carries the abstract structure it was *)
(* rendered from (what the parser must recover) or, for a near-miss, the reason why it is        *)
(* outside the grammar.  Whitespace between terminals is insignificant: each structure is        *)
(* rendered under several spacing styles.  Names come from an adversarial alphabet (keywords of  *)
(* the grammars used as identifiers, digits, underscores).                                       *)
EXTENDS Integers, Sequences, FiniteSets, TLC, Json
CONSTANT Full            \* TRUE: the whole bounded language; FALSE: the core used on every change
Nm == {"K", "K0", "take", "pos", "_x", "A1", "nway_shape", "Kpos", "coord", "flatten"}
Nu == {0, 1, 10}
W == {"", " "}
Size == {[t |-> "int", n |-> n] : n \in Nu} \cup {[t |-> "str", s |-> x] : x \in Nm}
RS(z) == IF z.t = "int" THEN ToString(z.n) ELSE z.s
Sent(g, text, ok, expect) == [g |-> g, text |-> text, ok |-> ok, expect |-> expect]
Miss(g, S) == {Sent(g, p[1], FALSE, [why |-> p[2]]) : p \in S}
-----------------------------------------------------------------------------
Directives ==
     {Sent("part", k \o "(" \o a \o RS(z) \o b \o ")", TRUE, [kind |-> k, size |-> z]) : k \in {"nway_shape", "uniform_shape"}, z \in Size, a \in W, b \in W}
  \cup {Sent("part", "uniform_occupancy(" \o a \o l \o b \o "." \o c \o RS(z) \o d \o ")", TRUE, [kind |-> "uniform_occupancy", leader |-> l, size |-> z]) :
          l \in {"A1", "take", "K"}, z \in Size, a \in W, b \in W, c \in W, d \in W}
  \cup {Sent("part", "flatten(" \o a \o ")", TRUE, [kind |-> "flatten"]) : a \in W}
  \cup {Sent("part", "follow(" \o a \o l \o b \o ")", TRUE, [kind |-> "follow", leader |-> l]) : l \in Nm, a \in W, b \in W}
DirectiveMisses == Miss("part", {
     <<"uniform_shape (4)", "keyword and parenthesis are one terminal">>, <<"uniform_shape(4", "unbalanced">>, <<"uniform_shape()", "missing size">>,
     <<"uniform_shape(4 5)", "two sizes">>, <<"shape(4)", "unknown directive">>, <<"uniform_occupancy(A 5)", "missing dot">>,
     <<"uniform_occupancy(.5)", "missing leader">>, <<"uniform_occupancy(A.)", "missing size">>, <<"flatten(1)", "flatten takes nothing">>, <<"follow()", "missing leader">>,
     <<"follow(A.4)", "follow takes a leader only">>, <<"uniform_shape(4))", "trailing token">>, <<"uniform_shape(4$)", "illegal character">>, <<"", "empty">>,
     <<"nway_shape(-4)", "sizes are unsigned">>, <<"uniform_shape(K+1)", "a size is one number or one name">>,
     <<"Uniform_shape(4)", "keywords are lower case">>, <<"uniform_shape2(4)", "unknown directive">>, <<"uniform_shap(4)", "unknown directive">>,
     <<"flatten ( )", "keyword and parenthesis are one terminal">>, <<"follow (A)", "keyword and parenthesis are one terminal">>, <<"follow(A, B)", "one leader">>,
     <<"uniform_occupancy(A.4, B.2)", "one leader and size">>, <<"uniform_occupancy(4.A)", "the leader is a name">>, <<"flatten", "missing parentheses">>,
     <<"uniform_shape[4]", "wrong brackets">>, <<"uniform_shape(4);", "trailing token">>})
Levels ==
     {Sent("level", n \o a, TRUE, [name |-> n, num |-> 1]) : n \in Nm, a \in W}
  \cup {Sent("level", n \o a \o "[0.." \o b \o ToString(k) \o c \o "]", TRUE, [name |-> n, num |-> k + 1]) : n \in Nm, k \in Nu \cup {15, 127}, a \in W, b \in W, c \in W}
LevelMisses == Miss("level", {
     <<"PE[0 ..3]", "range opener is one terminal">>, <<"PE[1..3]", "range must start at 0">>, <<"PE[0..]", "missing bound">>, <<"PE[0..3", "unbalanced">>,
     <<"P E", "two names">>, <<"[0..3]", "missing name">>, <<"PE[0..3]]", "trailing token">>, <<"PE[0..N]", "bound must be a number">>,
     <<"PE[0..3][0..2]", "two ranges">>, <<"PE(0..3)", "wrong brackets">>, <<"PE[0-3]", "range needs ..">>, <<"PE[..3]", "range must start at 0">>, <<"PE[0..-3]", "bounds are unsigned">>})
Stamps ==
     {Sent("stamp", n \o a, TRUE, [rank |-> n, style |-> "pos"]) : n \in Nm, a \in W}
  \cup {Sent("stamp", n \o a \o "." \o s \o b, TRUE, [rank |-> n, style |-> s]) : n \in Nm, s \in {"pos", "coord"}, a \in W, b \in W}
StampMisses == Miss("stamp", {
     <<"K.position", "unknown style">>, <<"K. pos", "dot and style are one terminal">>, <<".pos", "missing rank">>, <<"K.pos.coord", "two styles">>, <<"K pos", "two names">>,
     <<"K.", "missing style">>, <<"K.coord1", "trailing characters">>,
     <<"K.coordinate", "unknown style">>, <<"K.Pos", "styles are lower case">>, <<"K .pos .pos", "two styles">>, <<"K.pos,", "trailing token">>, <<"(K).pos", "a rank is a name">>})
Tuples ==
     {Sent("ranks", n \o a, TRUE, [ranks |-> <<n>>]) : n \in Nm, a \in W}
  \cup {Sent("ranks", "(" \o a \o x \o b \o "," \o c \o y \o d \o ")", TRUE, [ranks |-> <<x, y>>]) : x \in {"K", "take", "K0"}, y \in {"M", "pos", "_x"}, a \in W, b \in W, c \in W, d \in W}
  \cup {Sent("ranks", "(K," \o a \o "M" \o b \o "," \o c \o "N)", TRUE, [ranks |-> <<"K", "M", "N">>]) : a \in W, b \in W, c \in W}
  \cup {Sent("ranks", "(" \o x \o "," \o a \o "M0, N1," \o b \o y \o ")", TRUE, [ranks |-> <<x, "M0", "N1", y>>]) : x \in {"K", "pos"}, y \in {"J", "take"}, a \in W, b \in W}
TupleMisses == Miss("ranks", {
     <<"(K)", "a tuple needs two ranks">>, <<"(K, M", "unbalanced">>, <<"K, M", "missing parentheses">>, <<"(K M)", "missing comma">>, <<"(K,, M)", "doubled comma">>, <<"()", "empty">>,
     <<"(K, M,)", "trailing comma">>, <<"(K, 3)", "a rank is a name">>,
     <<"((K, M), N)", "no nesting">>, <<"(K; M)", "illegal separator">>, <<"[K, M]", "wrong brackets">>, <<"(K, M) N", "trailing token">>})
-----------------------------------------------------------------------------
(* Einsum expressions.  Structure: [out |-> access, terms |-> Seq(term)]                         *)
(*   access = [name, idx : Seq(iexpr)]   iexpr = Seq([c, v])   term = [kind, sel, facs : Seq(factor)]  *)
(*   factor = [k |-> "t", name, idx] | [k |-> "v", name, idx |-> <<>>]                            *)
TName == IF Full THEN {"A", "take", "t", "A1"} ELSE {"A", "take"}
VName == IF Full THEN {"k", "take", "m0"} ELSE {"k", "m0"}
IT(c, v) == [c |-> c, v |-> v]
IExprs == {<<IT(1, "k")>>, <<IT(3, "k")>>, <<IT(-2, "m0")>>, <<IT(1, "k"), IT(1, "m0")>>, <<IT(3, "k"), IT(1, "take")>>, <<IT(1, "m0"), IT(-2, "k")>>}
             \cup (IF Full THEN {<<IT(1, "take")>>, <<IT(2, "k"), IT(3, "m0")>>, <<IT(-1, "k"), IT(1, "k")>>} ELSE {})
IE2 == {<<IT(1, "k")>>, <<IT(-2, "m0")>>, <<IT(1, "k"), IT(1, "m0")>>}
RankLists == {<<>>} \cup {<<e>> : e \in IExprs} \cup {<<a, b>> : a \in IE2, b \in IE2}
Tensors == {[k |-> "t", name |-> n, idx |-> r] : n \in TName, r \in RankLists}
Vars == {[k |-> "v", name |-> n, idx |-> <<>>] : n \in {"b", "take0"}}
F2 == {[k |-> "t", name |-> "A", idx |-> << <<IT(1, "k")>> >>], [k |-> "t", name |-> "take", idx |-> <<>>], [k |-> "t", name |-> "A1", idx |-> << <<IT(3, "k"), IT(1, "take")>>, <<IT(1, "k")>> >>], [k |-> "v", name |-> "b", idx |-> <<>>]}
Terms1 == {[kind |-> "times", sel |-> 0, facs |-> <<f>>] : f \in Tensors \cup Vars}
Terms2 == {[kind |-> "times", sel |-> 0, facs |-> <<f, g>>] : f \in F2, g \in F2}
             \cup {[kind |-> "take", sel |-> s, facs |-> <<f, g>>] : f \in F2, g \in F2, s \in {0, 1}}
             \cup {[kind |-> "take", sel |-> 2, facs |-> <<f, g, h>>] : f \in F2, g \in F2, h \in {F2e \in F2 : F2e.k = "t"}}
T2 == {[kind |-> "times", sel |-> 0, facs |-> << [k |-> "t", name |-> "A", idx |-> << <<IT(1, "k")>> >>] >>],
       [kind |-> "take", sel |-> 1, facs |-> << [k |-> "t", name |-> "A", idx |-> << <<IT(1, "k")>> >>], [k |-> "v", name |-> "b", idx |-> <<>>] >>],
       [kind |-> "times", sel |-> 0, facs |-> << [k |-> "v", name |-> "b", idx |-> <<>>], [k |-> "t", name |-> "take", idx |-> << <<IT(-2, "m0")>> >>] >>]}
Outs == {[name |-> "Z", idx |-> <<>>], [name |-> "take", idx |-> << <<IT(1, "k")>> >>], [name |-> "Z0", idx |-> << <<IT(1, "k")>>, <<IT(1, "m0")>> >>]}
Exprs == {<<t>> : t \in Terms1 \cup Terms2} \cup {<<a, b>> : a \in T2, b \in T2} \cup (IF Full THEN {<<a, b, c>> : a \in T2, b \in T2, c \in T2} ELSE {})
Einsums == {[out |-> o, terms |-> e] : o \in Outs, e \in Exprs}
\* rendering under a spacing style: s = separator put at every optional position
RECURSIVE Join(_, _)
Join(ss, sep) == IF ss = <<>> THEN "" ELSE IF Len(ss) = 1 THEN ss[1] ELSE ss[1] \o sep \o Join(Tail(ss), sep)
\* a negative coefficient is the two tokens "-" NUMBER: spacing between them is insignificant as well
RITerm(t, s) == IF t.c = 1 THEN t.v
                ELSE IF t.c < 0 THEN "-" \o s \o ToString(0 - t.c) \o s \o "*" \o s \o t.v
                ELSE ToString(t.c) \o s \o "*" \o s \o t.v
RIExpr(e, s) == Join([i \in 1..Len(e) |-> RITerm(e[i], s)], s \o "+" \o s)
RAccess(a, s) == a.name \o s \o "[" \o s \o Join([i \in 1..Len(a.idx) |-> RIExpr(a.idx[i], s)], s \o "," \o s) \o s \o "]"
RFactor(f, s) == IF f.k = "t" THEN RAccess(f, s) ELSE f.name
RTerm(t, s) == IF t.kind = "times" THEN Join([i \in 1..Len(t.facs) |-> RFactor(t.facs[i], s)], s \o "*" \o s)
               ELSE "take(" \o s \o Join([i \in 1..Len(t.facs) |-> RFactor(t.facs[i], s)], s \o "," \o s) \o s \o "," \o s \o ToString(t.sel) \o s \o ")"
REinsum(e, s) == RAccess(e.out, s) \o s \o "=" \o s \o Join([i \in 1..Len(e.terms) |-> RTerm(e.terms[i], s)], s \o "+" \o s)
EinsumSents == {Sent("einsum", REinsum(e, s), TRUE, e) : e \in Einsums, s \in (IF Full THEN {"", " ", "  "} ELSE {"", " "})}
EinsumMisses == Miss("einsum", {
     <<"Z[m] = ", "missing expression">>, <<"Z[m] A[m]", "missing =">>, <<"Z[m] = A[m] +", "missing operand">>, <<"Z[m] = A[m] * * B[m]", "doubled operator">>,
     <<"Z[m] = A[m", "unbalanced bracket">>, <<"Z[m]] = A[m]", "unbalanced bracket">>, <<"Z[m] = take(A[m], B[m])", "take needs a selector">>,
     <<"Z[m] = take (A[m], B[m], 0)", "keyword and parenthesis are one terminal">>, <<"Z[m] = A[m] $ B[m]", "illegal character">>, <<"Z[2m] = A[m]", "coefficient needs *">>,
     <<"Z[m] = A[m*2]", "coefficient comes first">>, <<"Z[m] = A[2*3]", "an index term needs a variable">>, <<"Z[m] = A[m] B[m]", "missing operator">>,
     <<"Z[m] = A[m],", "trailing token">>, <<"= A[m]", "missing output">>, <<"Z = A[m]", "the output is an access">>, <<"Z[m] = A[m] + + B[m]", "doubled operator">>,
     <<"Z[m] = A[m] - B[m]", "no subtraction of terms">>, <<"Z[m] = (A[m])", "no parentheses">>, <<"Z[m] = take(A[m], B[m], k)", "the selector is a number">>,
     <<"Z[m] = A[m] * take(B[m], C[m], 0)", "take is a whole term">>, <<"Z[m] = A[m;n]", "illegal separator">>, <<"Z[m] = A[m] = B[m]", "two =">>, <<"", "empty">>,
     <<"Z[m] = A[+2*m]", "no unary plus">>, <<"Z[m] = A[k + +2*m]", "no unary plus">>, <<"Z[m] = A[k ++ m]", "doubled +">>, <<"Z[m] = A[--2*m]", "doubled sign">>,
     <<"Z[m] = A[2*-m]", "sign after *">>, <<"Z[m] = A[-m]", "a sign needs a number">>})
-----------------------------------------------------------------------------
All == Directives \cup DirectiveMisses \cup Levels \cup LevelMisses \cup Stamps \cup StampMisses \cup Tuples \cup TupleMisses \cup EinsumSents \cup EinsumMisses
VARIABLE s
Init == s \in All
Next == UNCHANGED s
Spec == Init /\ [][Next]_s
Emit == PrintT("SENT|" \o ToJson(s))
=============================================================================
