----------------------------- MODULE HFMachine ------------------------------
(* The HiFiber abstract machine (DESIGN 3.3): small-step execution of an emitted program (HF-IR,  *)
(* produced from the emitted *text* by harness/hfir.py) on the reference model of HFStore /       *)
(* HFFibers, with the Einsum oracle of EinsumSem and the observers of the execution properties.   *)
(* One behaviour = one (program, extents configuration, input tensors, library variant);          *)
(* one step = one emitted statement or loop-control point.                                         *)
EXTENDS HFFibers, EinsumSem, MetricsProtocol, RollUp, Json, IOUtils

Batch == JsonDeserialize(IOEnv.HF_BATCH)
Progs == Batch.progs

VARIABLES pid, cfg, supi, sup, variant,         \* chosen in Init, constant afterwards
          pc, env, objs, store, stack, err, upd, acts, stamps, dup, nstd, mp
vars == <<pid, cfg, supi, sup, variant, pc, env, objs, store, stack, err, upd, acts, stamps, dup, nstd, mp>>
obsv == <<acts, stamps, dup>>

Prog == Progs[pid]
Code == Prog.code
I == Code[pc]
Cfg == Prog.configs[cfg]
-----------------------------------------------------------------------------
(* input space *)
Cells(shape) == LET RECURSIVE Cs(_)
                    Cs(i) == IF i > Len(shape) THEN {<<>>} ELSE {<<c>> \o r : c \in 0..(Cfg[shape[i]] - 1), r \in Cs(i + 1)}
                IN Cs(1)
InVal(t, cell) == 1 + ((3 * t + SumOver(1..Len(cell), [i \in 1..Len(cell) |-> (i + 1) * cell[i]])) % 3)
Supports(p, c) == LET ins == Progs[p].inputs
                      cellsOf(i) == LET shape == ins[i].shape
                                        RECURSIVE Cs(_)
                                        Cs(j) == IF j > Len(shape) THEN {<<>>} ELSE {<<x>> \o r : x \in 0..(Progs[p].configs[c][shape[j]] - 1), r \in Cs(j + 1)}
                                    IN Cs(1)
                      ok(i, S) == Cardinality(S) <= Progs[p].nz \/ Cardinality(cellsOf(i) \ S) <= Progs[p].z
                      RECURSIVE Prod(_)
                      Prod(i) == IF i > Len(ins) THEN {<<>>} ELSE {<<S>> \o r : S \in {T \in SUBSET cellsOf(i) : ok(i, T)}, r \in Prod(i + 1)}
                  IN Prod(1)
ScalePath(cell) == [i \in 1..Len(cell) |-> <<cell[i] * SCALE>>]
InputStore(i) == LET inp == Prog.inputs[i]
                     pm == inp.perm                 \* ids position -> declared position
                     img(cell) == ScalePath([j \in 1..Len(pm) |-> cell[pm[j]]])
                 IN [d |-> Len(inp.ids), m |-> [q \in {img(c) : c \in sup[i]} |-> InVal(i, CHOOSE c \in sup[i] : img(c) = q)]]
Init == /\ pid \in 1..Len(Progs)
        /\ cfg \in 1..Len(Progs[pid].configs)
        /\ supi \in 1..Len(Progs[pid].sups[cfg])
        /\ sup = [i \in 1..Len(Progs[pid].sups[cfg][supi]) |-> SeqSet(Progs[pid].sups[cfg][supi][i])]
        /\ variant \in {[haloOnly |-> h, dropBelow |-> b] : h \in (IF Progs[pid].usesHalo THEN {TRUE, FALSE} ELSE {TRUE}), b \in (IF Progs[pid].usesNonUniform THEN {TRUE, FALSE} ELSE {TRUE})}
        /\ pc = 1 /\ stack = <<>> /\ err = "" /\ upd = 0 /\ acts = 0 /\ stamps = {} /\ dup = FALSE /\ nstd = 0
        /\ mp = MpInit @@ [lie |-> ""]      \* + the first tensor variable read while its rank ids spelled something else (C05/C07)
        /\ store = [i \in 1..Len(Progs[pid].inputs) |-> InputStore(i)]
        /\ objs = [i \in 1..Len(Progs[pid].inputs) |-> [ids |-> Progs[pid].inputs[i].ids, sid |-> i, pre |-> <<>>]]
        /\ env = [x \in {Progs[pid].inputs[i].var : i \in 1..Len(Progs[pid].inputs)} \cup DOMAIN Progs[pid].configs[cfg] |->
                   IF x \in DOMAIN Progs[pid].configs[cfg] THEN NumI(Progs[pid].configs[cfg][x])
                   ELSE [k |-> "ten", o |-> CHOOSE i \in 1..Len(Progs[pid].inputs) : Progs[pid].inputs[i].var = x]]
-----------------------------------------------------------------------------
StrSeq(e) == [i \in 1..Len(e.elts) |-> e.elts[i].s]
Obj(e) == objs[env[e.id].o]
NewTensor(dst, ids, m) ==
  /\ store' = Append(store, [d |-> Len(ids), m |-> m])
  /\ objs' = Append(objs, [ids |-> ids, sid |-> Len(store) + 1, pre |-> <<>>])
  /\ env' = Bind(env, dst, [k |-> "ten", o |-> Len(objs) + 1])
SplitIds(ids, d) == SubSeq(ids, 1, d) \o <<ids[d + 1] \o ".1", ids[d + 1] \o ".0">> \o SubSeq(ids, d + 2, Len(ids))
KwInt(e, name, dflt) == LET x == Kw(e, name) IN IF x.e = "absent" THEN dflt ELSE NFloor(Eval(x, env, store))
KwScaled(e, name) == LET x == Kw(e, name) IN IF x.e = "absent" THEN 0 ELSE ScaledOf(Eval(x, env, store))
Fail(msg) == err' = msg /\ UNCHANGED <<pc, env, objs, store, stack, upd, obsv>>
Adv == pc' = pc + 1
TensorOps == {"splitUniform", "splitEqual", "splitNonUniform", "swizzleRanks", "mergeRanks", "flattenRanks", "unflattenRanks", "getRoot", "fromFiber"}
IsTensorOp(e) == e.e = "call" /\ ((e.fn.e = "attr" /\ e.fn.name \in TensorOps) \/ (e.fn.e = "name" /\ e.fn.id \in {"Tensor", "createCanvas"}))


(* names read by the instruction at pc (lambda parameters excluded) -- same operator as in Scope *)
Api == {"Tensor", "Fiber", "Metrics", "Traffic", "Format", "Compute", "createCanvas", "displayCanvas",
        "LeaderFollowerIntersector", "SkipAheadIntersector", "TwoFingerIntersector",
        "enumerate", "len", "int", "min", "max", "set", "float"}
RECURSIVE Reads(_)
Reads(e) ==
  CASE e.e = "name" -> {e.id}
    [] e.e \in {"num", "str", "bool", "none", "absent"} -> {}
    [] e.e \in {"tuple", "list"} -> UNION {Reads(e.elts[i]) : i \in 1..Len(e.elts)}
    [] e.e = "dict" -> UNION ({Reads(e.keys[i]) : i \in 1..Len(e.keys)} \cup {Reads(e.vals[i]) : i \in 1..Len(e.vals)})
    [] e.e \in {"bin", "cmp"} -> Reads(e.l) \cup Reads(e.r)
    [] e.e = "neg" -> Reads(e.x)
    [] e.e = "attr" -> Reads(e.obj)
    [] e.e = "index" -> Reads(e.obj) \cup Reads(e.key)
    [] e.e = "call" -> Reads(e.fn) \cup UNION ({Reads(e.args[i]) : i \in 1..Len(e.args)} \cup {Reads(e.kw[i].v) : i \in 1..Len(e.kw)})
    [] e.e = "lambda" -> Reads(e.body) \ SeqSet(e.params)
ReadsOf(i) == CASE i.op = "assign" -> Reads(i.e)
                [] i.op = "setitem" -> Reads(i.obj) \cup Reads(i.key) \cup Reads(i.e)
                [] i.op = "aug" -> Reads(i.dst) \cup Reads(i.e)
                [] i.op = "expr" -> Reads(i.e)
                [] i.op = "for" -> Reads(i.it)
                [] i.op = "if" -> Reads(i.c)
                [] OTHER -> {}
Unbound == ReadsOf(I) \ (DOMAIN env \cup Api)

RECURSIVE FibPos(_)
FibPos(e) ==
  CASE e.e = "name" -> {e.id}
    [] e.e = "bin" /\ e.op \in {"&", "|", "<<"} -> FibPos(e.l) \cup FibPos(e.r)
    [] e.e = "call" /\ e.fn.e = "attr" /\ e.fn.name \in {"project", "prune", "iterRangeShapeRef"} -> FibPos(e.fn.obj)
    [] e.e = "call" /\ e.fn.e = "attr" /\ e.fn.name \in {"intersection", "fromLazy"} -> UNION {FibPos(e.args[i]) : i \in 1..Len(e.args)}
    [] IsCallTo(e, "enumerate") -> FibPos(e.args[1])
    [] OTHER -> {}
NotFibers(e) == {n \in FibPos(e) \cap DOMAIN env : env[n].k \notin {"view", "lf", "dflt"}}
IsActivity == I.op = "expr" /\ IsMeth(I.e, "addActivity") /\ Unbound = {}
IsCanvas == I.op = "assign" /\ IsCallTo(I.e, "createCanvas") /\ Unbound = {}
RECURSIVE RootName(_), KeyPath(_, _, _), SetIn(_, _, _)
RootName(e) == IF e.e = "name" THEN e.id ELSE RootName(e.obj)
KeyPath(e, en, st) == IF e.e = "name" THEN <<>> ELSE KeyPath(e.obj, en, st) \o <<Eval(e.key, en, st)>>
SetIn(c, path, v) == IF Len(path) = 1 THEN [c EXCEPT !.f = Bind(c.f, path[1], v)]
                     ELSE [c EXCEPT !.f = Bind(c.f, path[1], SetIn(c.f[path[1]], Tail(path), v))]

InLoop == stack # <<>>
MpNext == MpStep(mp, I, InLoop, FALSE)
EnvS == Bind(env, "$std", NumI(nstd + 17 * supi))      \* stand-in results vary with statement and input
(* ---------------------------------------------------------------------------------------- *)
(* One named action per kind of emitted statement (so that TLC's coverage shows which HiFiber    *)
(* operations a run exercised).  G_x is the enabling condition of action x on the statement at   *)
(* pc; the guards are mutually exclusive; a statement no action accepts makes the machine Stuck, *)
(* which is an error (the program is not executable on the reference model), never a silent end.  *)
Ready == err = "" /\ I.op # "done"
(* arithmetic on a tuple coordinate (the coordinate of a flattened rank is the tuple of its source coordinates): Python raises a    *)
(* TypeError for tuple - tuple, tuple * number, number + tuple, ...; only the forms that certainly fail are flagged; checked on     *)
(* every expression of the statement (lambda bodies excepted: they are evaluated when applied)                                      *)
RECURSIVE BadArith(_, _, _)
BadAny(es, en, st) == \E i \in 1..Len(es) : BadArith(es[i], en, st)
BadArith(e, en, st) ==
  CASE e.e = "bin" /\ e.op \in {"+", "-", "*", "/", "//", "%"} ->
         \/ BadArith(e.l, en, st) \/ BadArith(e.r, en, st)
         \/ LET a == Eval(e.l, en, st)  b == Eval(e.r, en, st) IN
            IF e.op = "+" THEN (a.k = "tup") # (b.k = "tup") ELSE a.k = "tup" \/ b.k = "tup"
    [] e.e \in {"bin", "cmp"} -> BadArith(e.l, en, st) \/ BadArith(e.r, en, st)
    [] e.e \in {"tuple", "list"} -> BadAny(e.elts, en, st)
    [] e.e = "index" -> BadArith(e.obj, en, st) \/ BadArith(e.key, en, st)
    [] e.e = "attr" -> BadArith(e.obj, en, st)
    [] e.e = "neg" -> BadArith(e.x, en, st)
    [] e.e = "call" -> BadArith(e.fn, en, st) \/ BadAny(e.args, en, st) \/ \E i \in 1..Len(e.kw) : BadArith(e.kw[i].v, en, st)
    [] OTHER -> FALSE
InstrExprs(i) == CASE i.op \in {"assign", "expr"} -> <<i.e>> [] i.op = "aug" -> <<i.dst, i.e>> [] i.op = "setitem" -> <<i.obj, i.key, i.e>>
                   [] i.op = "for" -> <<i.it>> [] i.op = "if" -> <<i.c>> [] OTHER -> <<>>
BadI == BadAny(InstrExprs(I), EnvS, store)
OK == Ready /\ Unbound = {} /\ ~BadI
Rest(vs) == UNCHANGED vs
AsgCall(name) == OK /\ I.op = "assign" /\ IsMeth(I.e, name)
G_TensorCtor == OK /\ I.op = "assign" /\ IsCallTo(I.e, "Tensor")
G_CreateCanvas == OK /\ I.op = "assign" /\ IsCallTo(I.e, "createCanvas")
G_AssignValue == OK /\ I.op = "assign" /\ ~IsTensorOp(I.e)
G_SetRankIds == OK /\ I.op = "expr" /\ IsMeth(I.e, "setRankIds")
G_AddActivity == OK /\ I.op = "expr" /\ IsMeth(I.e, "addActivity")
G_SetAdd == OK /\ I.op = "expr" /\ IsMeth(I.e, "add") /\ I.e.fn.obj.e = "name"
G_OtherCall == OK /\ I.op = "expr" /\ ~IsMeth(I.e, "setRankIds") /\ ~IsMeth(I.e, "addActivity") /\ ~(IsMeth(I.e, "add") /\ I.e.fn.obj.e = "name")
G_SetItem == OK /\ I.op = "setitem" /\ I.obj.e = "name"
G_SetItemNested == OK /\ I.op = "setitem" /\ I.obj.e # "name"
G_AugNested == OK /\ I.op = "aug" /\ I.dst.e = "index" /\ I.dst.obj.e # "name"
G_AugDict == OK /\ I.op = "aug" /\ I.dst.e = "index" /\ I.dst.obj.e = "name" /\ env[I.dst.obj.id].k = "dict"
G_Update == OK /\ I.op = "aug" /\ I.dst.e # "index"
G_ForNonFiber == OK /\ I.op = "for" /\ NotFibers(I.it) # {}
G_For == OK /\ I.op = "for" /\ NotFibers(I.it) = {}
G_EndFor == OK /\ I.op = "endfor"
G_If == OK /\ I.op = "if"
G_Jump == OK /\ I.op = "jump"
TensorMeths == {"fromFiber", "getRoot", "swizzleRanks", "splitUniform", "splitEqual", "splitNonUniform", "mergeRanks", "flattenRanks", "unflattenRanks"}
G_TensorMeth == OK /\ I.op = "assign" /\ I.e.e = "call" /\ I.e.fn.e = "attr" /\ I.e.fn.name \in TensorMeths

UnboundName_ == Ready /\ Unbound # {} /\ Fail("unbound name " \o (CHOOSE x \in Unbound : TRUE))
TupleArith_ == Ready /\ Unbound = {} /\ BadI /\ Fail("arithmetic on a tuple coordinate")
\* a constructor with an explicit shape records it with the storage (clause ShapeCovers: what is later written into that storage fits)
TensorCtor_ == /\ G_TensorCtor
               /\ LET ids == StrSeq(Kw(I.e, "rank_ids"))  sh == Kw(I.e, "shape") IN
                  IF sh.e = "absent" THEN NewTensor(I.dst, ids, <<>>)
                  ELSE LET v == Eval(sh, EnvS, store) IN
                       /\ store' = Append(store, [d |-> Len(ids), m |-> <<>>, shape |-> [j \in 1..Len(v.v) |-> NFloor(v.v[j])]])
                       /\ objs' = Append(objs, [ids |-> ids, sid |-> Len(store) + 1, pre |-> <<>>])
                       /\ env' = Bind(env, I.dst, [k |-> "ten", o |-> Len(objs) + 1])
               /\ Adv /\ Rest(<<stack, err, upd>>)
CreateCanvas_ == /\ G_CreateCanvas
                /\ env' = Bind(env, I.dst, [k |-> "canvas", ar |-> [i \in 1..Len(I.e.args) |-> Len(Obj(I.e.args[i]).ids)]])
                /\ stamps' = {} /\ UNCHANGED <<acts, dup>>          \* a new canvas: stamps are unique per canvas (one per Einsum)
                /\ Adv /\ Rest(<<objs, store, stack, err, upd>>)
FromFiber_ == /\ AsgCall("fromFiber")
             /\ LET f == Eval(Kw(I.e, "fiber"), env, store)  ids == StrSeq(Kw(I.e, "rank_ids")) IN
                IF f.k # "view" \/ Len(ids) # f.d - Len(f.pre) THEN Fail("fromFiber: rank ids do not match fiber depth")
                ELSE /\ objs' = Append(objs, [ids |-> ids, sid |-> f.sid, pre |-> f.pre])          \* shares the storage (A8)
                     /\ env' = Bind(env, I.dst, [k |-> "ten", o |-> Len(objs) + 1])
                     /\ Adv /\ Rest(<<store, stack, err, upd>>)
GetRoot_ == /\ AsgCall("getRoot")
           /\ LET o == Obj(I.e.fn.obj) IN
              /\ env' = Bind(env, I.dst, IF Len(o.ids) = 0 THEN Ref(o.sid, o.pre) ELSE View(o.sid, o.pre, Len(o.pre) + Len(o.ids)))
              /\ Adv /\ Rest(<<objs, store, stack, err, upd>>)
SwizzleRanks_ == /\ AsgCall("swizzleRanks")
                /\ LET o == Obj(I.e.fn.obj)  new == StrSeq(Kw(I.e, "rank_ids")) IN
                   IF SeqSet(new) # SeqSet(o.ids) \/ Len(new) # Len(o.ids) THEN Fail("swizzleRanks: not a permutation of the rank ids")
                   ELSE /\ NewTensor(I.dst, new, Swizzle(Rel(store, o), [i \in 1..Len(new) |-> CHOOSE j \in 1..Len(o.ids) : o.ids[j] = new[i]]))
                        /\ Adv /\ Rest(<<stack, err, upd>>)
SplitUniformA_ == /\ AsgCall("splitUniform")
                 /\ LET o == Obj(I.e.fn.obj)  d == KwInt(I.e, "depth", 0)  stepv == Eval(I.e.args[1], env, store) IN
                    \* the library partitions by coordinate ranges [i * step, (i + 1) * step) for any positive number; a follower reached through a
                    \* fractional coefficient gets a fractional step (1 / 2 * 3); steps that are multiples of 1/SCALE are exact in the model
                    IF stepv.k # "num" \/ stepv.n <= 0 THEN Fail("splitUniform: step is not a positive number")
                    ELSE IF (stepv.n * SCALE) % stepv.d # 0 THEN Fail("splitUniform: step is not a multiple of 1/12 (outside the reference model)")
                    ELSE IF d >= Len(o.ids) THEN Fail("splitUniform: depth out of range")
                    ELSE /\ NewTensor(I.dst, SplitIds(o.ids, d), SplitUniform(Rel(store, o), d, ScaledOf(stepv), KwScaled(I.e, "pre_halo"), KwScaled(I.e, "post_halo"), variant.haloOnly))
                         /\ Adv /\ Rest(<<stack, err, upd>>)
SplitEqualA_ == /\ AsgCall("splitEqual")
               /\ LET o == Obj(I.e.fn.obj)  n == Eval(I.e.args[1], env, store) IN
                  IF ~(n.d = 1 /\ n.n > 0) THEN Fail("splitEqual: size is not a positive integer")
                  ELSE /\ NewTensor(I.dst, SplitIds(o.ids, 0), SplitEqual(Rel(store, o), 0, n.n)) /\ Adv /\ Rest(<<stack, err, upd>>)
SplitNonUniformA_ == /\ AsgCall("splitNonUniform")
                    /\ LET o == Obj(I.e.fn.obj)  f == Eval(I.e.args[1], env, store) IN
                       IF f.k # "view" THEN Fail("splitNonUniform: boundaries are not a fiber")
                       ELSE /\ NewTensor(I.dst, SplitIds(o.ids, 0), SplitNonUniform(Rel(store, o), 0, CoordsAt(store[f.sid].m, f.pre), variant.dropBelow))
                            /\ Adv /\ Rest(<<stack, err, upd>>)
MergeRanks_ == /\ AsgCall("mergeRanks")
              /\ LET o == Obj(I.e.fn.obj)  d == KwInt(I.e, "depth", 0)  l == KwInt(I.e, "levels", 1) IN
                 IF d + l >= Len(o.ids) THEN Fail("mergeRanks: depth/levels out of range")
                 ELSE /\ NewTensor(I.dst, Drop(o.ids, d, l), MergeAbs(Rel(store, o), d, l)) /\ Adv /\ Rest(<<stack, err, upd>>)
FlattenRanks_ == /\ AsgCall("flattenRanks")
                /\ LET o == Obj(I.e.fn.obj)  d == KwInt(I.e, "depth", 0)  l == KwInt(I.e, "levels", 1) IN
                   IF d + l >= Len(o.ids) THEN Fail("flattenRanks: depth/levels out of range")
                   ELSE /\ NewTensor(I.dst, SubSeq(o.ids, 1, d) \o <<"flat">> \o SubSeq(o.ids, d + l + 2, Len(o.ids)), Flatten(Rel(store, o), d, l))
                        /\ Adv /\ Rest(<<stack, err, upd>>)
UnflattenRanks_ == /\ AsgCall("unflattenRanks")
                  /\ LET o == Obj(I.e.fn.obj)  d == KwInt(I.e, "depth", 0)  l == KwInt(I.e, "levels", 1)  m == Rel(store, o) IN
                     IF \E p \in DOMAIN m : Len(p[d + 1]) # l + 1 THEN Fail("unflattenRanks: coordinate arity")
                     ELSE /\ NewTensor(I.dst, SubSeq(o.ids, 1, d) \o [i \in 1..(l + 1) |-> "unflat"] \o SubSeq(o.ids, d + 2, Len(o.ids)), Unflatten(m, d, l))
                          /\ Adv /\ Rest(<<stack, err, upd>>)
AssignValue_ == /\ G_AssignValue
               /\ LET v == Eval(I.e, EnvS, store) IN
                  /\ env' = Bind(env, I.dst, v) /\ store' = Touch(store, RefsIn(v))
                  /\ Adv /\ Rest(<<objs, stack, err, upd>>)
SetRankIds_ == /\ G_SetRankIds
              /\ LET oid == env[I.e.fn.obj.id].o  ids == StrSeq(Kw(I.e, "rank_ids")) IN
                 IF Len(ids) # Len(objs[oid].ids) THEN Fail("setRankIds: wrong number of rank ids")
                 ELSE objs' = [objs EXCEPT ![oid].ids = ids] /\ Adv /\ Rest(<<env, store, stack, err, upd>>)      \* in place: every alias sees it
AddActivity_ == /\ G_AddActivity
               /\ LET cv == Eval(I.e.fn.obj, env, store)
                      pts == [i \in 1..Len(I.e.args) |-> Eval(I.e.args[i], env, store)]
                      stamp == Eval(Kw(I.e, "spacetime"), env, store) IN
                  IF Len(pts) # Len(cv.ar) \/ \E i \in 1..Len(pts) : Len(pts[i].v) # cv.ar[i]
                  THEN err' = "activity point arity differs from displayed tensor" /\ UNCHANGED <<pc, env, objs, store, stack, upd, obsv>>
                  ELSE /\ acts' = acts + 1 /\ stamps' = stamps \cup {stamp} /\ dup' = (dup \/ stamp \in stamps)
                       /\ Adv /\ Rest(<<env, objs, store, stack, err, upd>>)
SetAdd_ == /\ G_SetAdd
          /\ LET st0 == env[I.e.fn.obj.id] IN
             /\ env' = Bind(env, I.e.fn.obj.id, [st0 EXCEPT !.s = @ \cup {Eval(I.e.args[1], env, store)}])
             /\ Adv /\ Rest(<<objs, store, stack, err, upd>>)
OtherCall_ == G_OtherCall /\ Adv /\ Rest(<<env, objs, store, stack, err, upd>>)          \* inert observer / model call
SetItem_ == /\ G_SetItem
           /\ LET dct == env[I.obj.id] IN
              /\ env' = Bind(env, I.obj.id, [dct EXCEPT !.f = Bind(dct.f, Eval(I.key, env, store), Eval(I.e, env, store))])
              /\ Adv /\ Rest(<<objs, store, stack, err, upd>>)
SetItemNested_ == /\ G_SetItemNested
                 /\ LET root == RootName(I.obj) IN
                    /\ env' = Bind(env, root, SetIn(env[root], KeyPath(I.obj, EnvS, store) \o <<Eval(I.key, EnvS, store)>>, Eval(I.e, EnvS, store)))
                    /\ Adv /\ Rest(<<objs, store, stack, err, upd>>)
AugNested_ == /\ G_AugNested
             /\ LET root == RootName(I.dst)  path == KeyPath(I.dst, EnvS, store) IN
                /\ env' = Bind(env, root, SetIn(env[root], path, NAdd(Deref(store, Eval(I.dst, EnvS, store)), Deref(store, Eval(I.e, EnvS, store)))))
                /\ Adv /\ Rest(<<objs, store, stack, err, upd>>)
AugDict_ == /\ G_AugDict
           /\ LET dct == env[I.dst.obj.id]  key == Eval(I.dst.key, env, store) IN
              /\ env' = Bind(env, I.dst.obj.id, [dct EXCEPT !.f = Bind(dct.f, key, NAdd(dct.f[key], Eval(I.e, env, store)))])
              /\ Adv /\ Rest(<<objs, store, stack, err, upd>>)
ForNonFiber_ == G_ForNonFiber /\ Fail("iterating over a non-fiber " \o (CHOOSE x \in NotFibers(I.it) : TRUE))
\* loop entry: the iterable is materialised (no emitted program mutates a fiber it iterates); empty => skip the body
ForEnter_ == /\ G_For
            /\ LET its == Items(I.it, env, store) IN
               IF Len(its) = 0 THEN pc' = I.end + 1 /\ Rest(<<env, objs, store, stack, err, upd>>)
               ELSE IF ~DestrOK(I.tgt, its[1]) THEN Fail("cannot unpack loop item into the loop target")
               ELSE /\ env' = Destr(I.tgt, its[1], env) /\ store' = Touch(store, RefsIn(its[1]))
                    /\ stack' = <<Tail(its)>> \o stack /\ Adv /\ Rest(<<objs, err, upd>>)
ForNext_ == /\ G_EndFor
           /\ LET its == Head(stack)  hdr == Code[I.start - 1] IN
              IF Len(its) = 0 THEN Adv /\ stack' = Tail(stack) /\ Rest(<<env, objs, store, err, upd>>)
              ELSE IF ~DestrOK(hdr.tgt, its[1]) THEN Fail("cannot unpack loop item into the loop target")
              ELSE /\ env' = Destr(hdr.tgt, its[1], env) /\ store' = Touch(store, RefsIn(its[1]))
                   /\ stack' = <<Tail(its)>> \o Tail(stack) /\ pc' = I.start /\ Rest(<<objs, err, upd>>)
IfStmt_ == G_If /\ pc' = (IF Eval(I.c, env, store).b THEN pc + 1 ELSE I.else) /\ Rest(<<env, objs, store, stack, err, upd>>)
Jump_ == G_Jump /\ pc' = I.to /\ Rest(<<env, objs, store, stack, err, upd>>)
\* z_ref += e  /  z_ref <<= e : the only statements that write tensor data
Update_ == /\ G_Update
          /\ LET r == Eval(I.dst, env, store) IN
             IF r.k # "ref" THEN
                (IF r.k = "num" THEN Adv /\ Rest(<<env, objs, store, stack, err, upd>>)   \* e.g. timestamps[...] += 1 (observer)
                 ELSE Fail("update target is not a payload reference"))
             ELSE IF r.sid <= Len(Prog.inputs) THEN Fail("update writes into an input tensor")
             ELSE LET v == Deref(store, Eval(I.e, env, store))
                      m == store[r.sid].m
                      old == IF r.path \in DOMAIN m THEN m[r.path] ELSE 0 IN
                  IF v.d # 1 THEN Fail("non-integral value")
                  ELSE /\ store' = [store EXCEPT ![r.sid].m = Bind(m, r.path, IF I.bop = "+" THEN old + v.n ELSE v.n)]
                       /\ upd' = upd + 1 /\ Adv /\ Rest(<<env, objs, stack, err>>)
Stuck_ == /\ OK
         /\ ~(G_TensorCtor \/ G_CreateCanvas \/ G_TensorMeth \/ G_AssignValue \/ G_SetRankIds \/ G_AddActivity \/ G_SetAdd \/ G_OtherCall \/ G_SetItem
              \/ G_SetItemNested \/ G_AugNested \/ G_AugDict \/ G_Update \/ G_ForNonFiber \/ G_For \/ G_EndFor \/ G_If \/ G_Jump)
         /\ Fail("statement is not executable on the reference model")
ConcatIds(ids) == FoldLeft(LAMBDA a, b : a \o b, "", ids)
\* intermediate layout (C05) / names tell the truth at every use (C07): a tensor variable <T>_<R> is read while the object it names has
\* rank ids that do not spell R.  (The statement `X.setRankIds(...)` itself is the one place where the emitted code names an object
\* before giving it its ids -- a split has just produced library-chosen ids -- and is exempt.)
LieAt == IF I.op = "expr" /\ IsMeth(I.e, "setRankIds") THEN ""
         ELSE LET rd == ReadsOf(I)
                  bad == {i \in 1..Len(Prog.tvars) : /\ Prog.tvars[i].var \in rd /\ Prog.tvars[i].var \in DOMAIN env
                                                      /\ env[Prog.tvars[i].var].k = "ten"
                                                      /\ ConcatIds(objs[env[Prog.tvars[i].var].o].ids) # Prog.tvars[i].spelled} IN
              IF bad = {} THEN "" ELSE Prog.tvars[CHOOSE i \in bad : TRUE].var
Common == /\ UNCHANGED <<pid, cfg, supi, sup, variant>>
          /\ (IsActivity \/ IsCanvas \/ UNCHANGED obsv)
          /\ mp' = IF Unbound = {} THEN [MpNext EXCEPT !.lie = IF @ = "" THEN LieAt ELSE @] ELSE mp
          /\ nstd' = IF err' = "" /\ I.op \in {"assign", "aug", "setitem"} THEN nstd + 1 ELSE nstd
\* every action = its statement-specific part (X_) + the part common to all steps (constants, observers, protocol monitor)
UnboundName == UnboundName_ /\ Common
TupleArith == TupleArith_ /\ Common
TensorCtor == TensorCtor_ /\ Common
CreateCanvas == CreateCanvas_ /\ Common
FromFiber == FromFiber_ /\ Common
GetRoot == GetRoot_ /\ Common
SwizzleRanks == SwizzleRanks_ /\ Common
SplitUniformA == SplitUniformA_ /\ Common
SplitEqualA == SplitEqualA_ /\ Common
SplitNonUniformA == SplitNonUniformA_ /\ Common
MergeRanks == MergeRanks_ /\ Common
FlattenRanks == FlattenRanks_ /\ Common
UnflattenRanks == UnflattenRanks_ /\ Common
AssignValue == AssignValue_ /\ Common
SetRankIds == SetRankIds_ /\ Common
AddActivity == AddActivity_ /\ Common
SetAdd == SetAdd_ /\ Common
OtherCall == OtherCall_ /\ Common
SetItem == SetItem_ /\ Common
SetItemNested == SetItemNested_ /\ Common
AugNested == AugNested_ /\ Common
AugDict == AugDict_ /\ Common
ForNonFiber == ForNonFiber_ /\ Common
ForEnter == ForEnter_ /\ Common
ForNext == ForNext_ /\ Common
IfStmt == IfStmt_ /\ Common
Jump == Jump_ /\ Common
Update == Update_ /\ Common
Stuck == Stuck_ /\ Common
Step == \/ UnboundName
        \/ TupleArith
        \/ TensorCtor
        \/ CreateCanvas
        \/ FromFiber
        \/ GetRoot
        \/ SwizzleRanks
        \/ SplitUniformA
        \/ SplitEqualA
        \/ SplitNonUniformA
        \/ MergeRanks
        \/ FlattenRanks
        \/ UnflattenRanks
        \/ AssignValue
        \/ SetRankIds
        \/ AddActivity
        \/ SetAdd
        \/ OtherCall
        \/ SetItem
        \/ SetItemNested
        \/ AugNested
        \/ AugDict
        \/ ForNonFiber
        \/ ForEnter
        \/ ForNext
        \/ IfStmt
        \/ Jump
        \/ Update
        \/ Stuck
Spec == Init /\ [][Step]_vars
-----------------------------------------------------------------------------
(* Einsum oracle (EinsumSem) instantiated on the chosen input *)
InMap(i) == [c \in sup[i] |-> InVal(i, c)]          \* declared index order, unscaled
InitT == [n \in {Prog.inputs[i].name : i \in 1..Len(Prog.inputs)} |-> InMap(CHOOSE i \in 1..Len(Prog.inputs) : Prog.inputs[i].name = n)]
Final == Cascade(Prog.einsums, 1, InitT, Cfg)
(* what the program left under the expected output variable, mapped back to declared index order *)
Got(o) == LET ob == objs[env[o.var].o]  m == Rel(store, ob)
              back(p) == [j \in 1..Len(o.perm) |-> p[CHOOSE i \in 1..Len(o.perm) : o.perm[i] = j][1] \div SCALE] IN
          [q \in {back(p) : p \in NZ(m)} |-> m[CHOOSE p \in NZ(m) : back(p) = q]]
Done == I.op = "done"
WithinExtentAtDone == \A i \in 1..Len(Prog.outs) : LET o == Prog.outs[i] IN
    (o.var \in DOMAIN env /\ env[o.var].k = "ten") =>
       \A p \in DOMAIN store[objs[env[o.var].o].sid].m :
          \A j \in 1..Len(p) : Len(p[j]) = 1 => (p[j][1] >= 0 /\ p[j][1] < Cfg[o.ids[j]] * SCALE)
\* explicit shapes (C11): every coordinate written at a rank of a tensor constructed with shape=[...] is below the declared extent of that
\* rank; at a rank of tuple coordinates (a flattened rank) there are at most that many distinct coordinates
ShapeCoversAtDone == \A sid \in 1..Len(store) : "shape" \in DOMAIN store[sid] =>
    LET m == store[sid].m  sh == store[sid].shape IN
    \A j \in 1..Len(sh) : LET cs == {p[j] : p \in {q \in DOMAIN m : Len(q) >= j}} IN
        IF \A c \in cs : Len(c) = 1 THEN \A c \in cs : c[1] >= 0 /\ c[1] < sh[j] * SCALE
        ELSE Cardinality(cs) <= sh[j]
Concat(ids) == FoldLeft(LAMBDA a, b : a \o b, "", ids)
NamesTruthfulAtDone == \A i \in 1..Len(Prog.tvars) : LET tv == Prog.tvars[i] IN
    (tv.var \in DOMAIN env /\ env[tv.var].k = "ten") => Concat(objs[env[tv.var].o].ids) = tv.spelled
(* C14: roll-up of the metrics dictionary the dump section built (RollUp.tla) *)
MetD == env["metrics"]
RollUpOK == RollUpHolds(MetD) /\ ComponentTimesHold(MetD, Prog.arch)
(* ---------------------------------------------------------------------------------------- *)
(* Properties.  Each is a state predicate; the batch configuration checks the always-true        *)
(* invariant Verdict, which prints one line per failing terminal state naming every failing      *)
(* clause (a failing batch must not stop at the first program).  The replay configuration        *)
(* checks the predicates as ordinary invariants to obtain a TLC error trace.                     *)
\* the variables the user supplied still denote the user's tensors: the same storage, whole, under the same rank ids (the compiler
\* does rebind them, to Tensor.fromFiber(...) of their own root fiber, which is the same tensor)
InputVarsIntact == \A i \in 1..Len(Prog.inputs) : LET x == Prog.inputs[i].var IN
    (x \in DOMAIN env /\ \A j \in 1..Len(Prog.outs) : Prog.outs[j].name # Prog.inputs[i].name) => /\ env[x].k = "ten" /\ objs[env[x].o].sid = i /\ objs[env[x].o].pre = <<>> /\ objs[env[x].o].ids = Prog.inputs[i].ids
InputsUnchanged == /\ \A i \in 1..Len(Prog.inputs) : store[i] = InputStore(i) /\ objs[i].ids = Prog.inputs[i].ids
                   /\ InputVarsIntact
OutputNamed(o) == /\ o.var \in DOMAIN env /\ env[o.var].k = "ten"
                  /\ objs[env[o.var].o].ids = o.ids
                  /\ \A p \in DOMAIN Rel(store, objs[env[o.var].o]) : \A i \in 1..Len(p) : Len(p[i]) = 1 /\ p[i][1] % SCALE = 0
OutputRestored == \A i \in 1..Len(Prog.outs) : OutputNamed(Prog.outs[i])
OutputValues == \A i \in 1..Len(Prog.outs) : OutputNamed(Prog.outs[i]) => Got(Prog.outs[i]) = Final[Prog.outs[i].name]
Terminal == Done \/ err # ""
Failing ==
  IF err # "" THEN <<"Err: " \o err>>
  ELSE SelectSeq(<<
     IF ~OutputRestored THEN "OutputRestored" ELSE "",
     IF ~OutputValues THEN "OutputCorrect" ELSE "",
     IF ~InputsUnchanged THEN "InputsUnchanged" ELSE "",
     IF ~WithinExtentAtDone THEN "WithinExtent" ELSE "",
     IF ~ShapeCoversAtDone THEN "ShapeCovers" ELSE "",
     IF ~NamesTruthfulAtDone THEN "NamesTruthful" ELSE "",
     IF mp.lie # "" THEN "NamesTruthful: " \o mp.lie \o " is used while its rank ids spell something else" ELSE "",
     IF mp.bad # "" THEN "Protocol: " \o mp.bad ELSE "",
     IF Prog.metrics /\ mp.sections # Len(Prog.einsums) THEN "Protocol: collection not opened exactly once per Einsum" ELSE "",
     IF Prog.metrics /\ mp.phase = "collecting" THEN "Protocol: collection never closed" ELSE "",
     IF Prog.metrics /\ ~RollUpOK THEN "RollUp" ELSE "",
     IF Prog.spacetime /\ acts # upd THEN "OneActivityPerUpdate" ELSE "",
     IF Prog.spacetime /\ Prog.stamped /\ dup THEN "StampsUnique" ELSE "">>, LAMBDA x : x # "")
JoinS(ss) == FoldLeft(LAMBDA a, b : IF a = "" THEN b ELSE a \o ";" \o b, "", ss)
VariantName == (IF variant.haloOnly THEN "A1a" ELSE "A1b") \o (IF variant.dropBelow THEN "A3a" ELSE "A3b")
Verdict == Terminal =>
   (IF Failing # <<>> THEN PrintT("VIOL|" \o ToString(pid) \o "|" \o ToString(cfg) \o "|" \o VariantName \o "|" \o ToString(supi) \o "|" \o JoinS(Failing))
    ELSE TRUE)
(* ordinary invariants for the replay configuration *)
NoErr == err = ""
OutputCorrect == (Done /\ err = "") => (OutputRestored /\ OutputValues)
InputsNeverModified == InputsUnchanged
WithinExtent == (Done /\ err = "") => WithinExtentAtDone
NamesTruthful == (Done /\ err = "") => NamesTruthfulAtDone
ProtocolOK == mp.bad = "" /\ ((Done /\ err = "" /\ Prog.metrics) => (mp.sections = Len(Prog.einsums) /\ mp.phase # "collecting"))
RollUpCorrect == (Done /\ err = "" /\ Prog.metrics) => RollUpOK
OneActivityPerUpdate == (Done /\ err = "" /\ Prog.spacetime) => acts = upd
StampsUnique == (Prog.spacetime /\ Prog.stamped) => ~dup
=============================================================================
