------------------------------- MODULE RollUp -------------------------------
(* C14: execution time is the bottleneck-per-block roll-up of component times (DESIGN 3.6).      *)
(* M is the `metrics` dictionary value the dump section of the emitted program built on the       *)
(* machine (a tagged dict value of HFValues); A maps Einsum name -> component name ->            *)
(* [kind, rate, inst] as read from the architecture/bindings YAML by the harness's independent   *)
(* reader (rate = clock frequency for functional units, bandwidth for memories; inst = N+1 for a *)
(* level named NAME[0..N]).                                                                      *)
EXTENDS HFValues
RECURSIVE NSumSet(_, _)
NSumSet(S, f) == IF S = {} THEN NumI(0) ELSE LET x == CHOOSE y \in S : TRUE IN NAdd(f[x], NSumSet(S \ {x}, f))
IsD(v) == v.k = "dict"
EinsumsOf(M) == {e \in DOMAIN M.f : IsD(M.f[e])}
CompsWithTime(M, e) == {c \in DOMAIN M.f[e].f : IsD(M.f[e].f[c]) /\ Str("time") \in DOMAIN M.f[e].f[c].f}
TimeOf(M, e, c) == M.f[e].f[c].f[Str("time")]
(* time of a block: the maximum over the components active in the block of that component's time summed over the block's Einsums *)
BlockTime(M, b) == LET es == SeqSet(b.v)
                       comps == UNION {CompsWithTime(M, e) : e \in es}
                       tot == [c \in comps |-> NSumSet({e \in es : c \in CompsWithTime(M, e)}, [e \in es |-> IF c \in CompsWithTime(M, e) THEN TimeOf(M, e, c) ELSE NumI(0)])]
                       best == CHOOSE c \in comps : \A c2 \in comps : NLe(tot[c2], tot[c]) IN
                   IF comps = {} THEN NumI(0) ELSE tot[best]
RollUpHolds(M) == LET bl == M.f[Str("blocks")].v IN
            /\ M.f[Str("time")] = NSumSet(1..Len(bl), [i \in 1..Len(bl) |-> BlockTime(M, bl[i])])
            /\ \A i, j \in 1..Len(bl) : i # j => SeqSet(bl[i].v) \cap SeqSet(bl[j].v) = {}
            \* every Einsum that computed a component time is in some block, so each time enters exactly once
            /\ \A e \in EinsumsOf(M) : CompsWithTime(M, e) # {} => \E i \in 1..Len(bl) : e \in SeqSet(bl[i].v)
(* each component time = count / (rate * instances), the count read from the program's own entries by component class *)
Count(M, e, c, kind) ==
  LET D == M.f[e].f[c].f
      keys == DOMAIN D \ {Str("time")} IN
  CASE kind = "memory" -> NSumSet({t \in keys : IsD(D[t])},
                                  [t \in keys |-> IF IsD(D[t]) THEN NAdd(D[t].f[Str("read")], IF t = e /\ Str("write") \in DOMAIN D[t].f THEN D[t].f[Str("write")] ELSE NumI(0)) ELSE NumI(0)])
    [] kind = "intersector" -> D[Str("intersect")]
    [] OTHER -> NSumSet(keys, D)            \* compute: the op entry; merger: the tensor entry; sequencer: the sum of the rank entries
ComponentTimesHold(M, A) ==
  \A e \in EinsumsOf(M) : \A c \in CompsWithTime(M, e) :
     (e.s \in DOMAIN A /\ c.s \in DOMAIN A[e.s]) =>
        LET a == A[e.s][c.s] IN TimeOf(M, e, c) = NDiv(Count(M, e, c, a.kind), NumI(a.rate * a.inst))
=============================================================================
