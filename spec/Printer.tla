------------------------------- MODULE Printer -------------------------------
(* C09: when does printed text denote the tree the compiler built?  (DESIGN 3.10)                *)
(* Expressions are HF-IR trees; on the compiler side an explicit parenthesis node                *)
(* [e |-> "paren", x] is kept.  Prec is the precedence of the 13 printable binary operators in    *)
(* the Python grammar; Faithful(t) is the criterion under which printing t without further        *)
(* parentheses and re-parsing yields t again (up to re-association of one associative operator);  *)
(* Canon erases parentheses and flattens chains so that two trees can be compared by equality.    *)
EXTENDS Naturals, Sequences, FiniteSets
Cmps == {"==", "<", "in", "notin"}
Assoc == {"+", "*", "&", "|"}
Prec(op) == CASE op \in Cmps -> 1 [] op = "|" -> 2 [] op = "&" -> 3 [] op = "<<" -> 4
              [] op \in {"+", "-"} -> 5 [] op \in {"*", "/", "//", "%"} -> 6
IsBin(t) == t.e \in {"bin", "cmp"}
\* an unparenthesised binary child c of a binary node with operator p, on side "l" or "r"
ChildOK(p, c, side) ==
  ~IsBin(c) \/ Prec(c.op) > Prec(p)
  \/ (Prec(c.op) = Prec(p) /\ p \notin Cmps /\ c.op \notin Cmps /\ (side = "l" \/ (c.op = p /\ p \in Assoc)))
\* a receiver (of .attr, [index], call) must be an atom, a call/attr/index, or parenthesised
ReceiverOK(t) == t.e \notin {"bin", "cmp", "lambda", "neg"} /\ ~(t.e = "num" /\ t.n < 0)
RECURSIVE Faithful(_)
AllF(s) == \A i \in 1..Len(s) : Faithful(s[i])
Faithful(t) ==
  CASE t.e \in {"bin", "cmp"} -> ChildOK(t.op, t.l, "l") /\ ChildOK(t.op, t.r, "r") /\ Faithful(t.l) /\ Faithful(t.r)
                                 /\ t.l.e # "lambda" /\ t.r.e # "lambda"
    [] t.e = "paren" -> Faithful(t.x)
    [] t.e = "neg" -> ~IsBin(t.x) /\ Faithful(t.x)
    [] t.e \in {"tuple", "list"} -> AllF(t.elts)
    [] t.e = "dict" -> AllF(t.keys) /\ AllF(t.vals) /\ \A i \in 1..Len(t.keys) : t.keys[i].e # "lambda"
    [] t.e = "attr" -> ReceiverOK(t.obj) /\ Faithful(t.obj)
    [] t.e = "index" -> ReceiverOK(t.obj) /\ Faithful(t.obj) /\ Faithful(t.key)
    [] t.e = "call" -> ReceiverOK(t.fn) /\ Faithful(t.fn) /\ AllF(t.args) /\ \A i \in 1..Len(t.kw) : Faithful(t.kw[i].v)
    [] t.e = "lambda" -> Faithful(t.body)
    [] OTHER -> TRUE
\* ---- canonical form: parentheses erased, chains of one associative operator flattened ----
RECURSIVE Canon(_)
MapC(s) == [i \in 1..Len(s) |-> Canon(s[i])]
ItemsOf(c, op) == IF c.e = "chain" /\ c.op = op THEN c.items ELSE <<c>>
Canon(e) ==
  CASE e.e = "paren" -> Canon(e.x)
    [] e.e = "bin" /\ e.op \in Assoc -> [e |-> "chain", op |-> e.op, items |-> ItemsOf(Canon(e.l), e.op) \o ItemsOf(Canon(e.r), e.op)]
    [] e.e \in {"bin", "cmp"} -> [e |-> e.e, op |-> e.op, l |-> Canon(e.l), r |-> Canon(e.r)]
    [] e.e \in {"tuple", "list"} -> [e |-> e.e, elts |-> MapC(e.elts)]
    [] e.e = "dict" -> [e |-> "dict", keys |-> MapC(e.keys), vals |-> MapC(e.vals)]
    [] e.e = "attr" -> [e |-> "attr", obj |-> Canon(e.obj), name |-> e.name]
    [] e.e = "index" -> [e |-> "index", obj |-> Canon(e.obj), key |-> Canon(e.key)]
    [] e.e = "neg" -> [e |-> "neg", x |-> Canon(e.x)]
    [] e.e = "lambda" -> [e |-> "lambda", params |-> e.params, body |-> Canon(e.body)]
    [] e.e = "call" -> [e |-> "call", fn |-> Canon(e.fn), args |-> MapC(e.args), kw |-> [i \in 1..Len(e.kw) |-> [k |-> e.kw[i].k, v |-> Canon(e.kw[i].v)]]]
    [] OTHER -> e
CanonI(i) ==
  CASE i.op = "assign" -> [op |-> "assign", dst |-> i.dst, e |-> Canon(i.e)]
    [] i.op = "setitem" -> [op |-> "setitem", obj |-> Canon(i.obj), key |-> Canon(i.key), e |-> Canon(i.e)]
    [] i.op = "aug" -> [op |-> "aug", dst |-> Canon(i.dst), bop |-> i.bop, e |-> Canon(i.e)]
    [] i.op = "expr" -> [op |-> "expr", e |-> Canon(i.e)]
    [] i.op = "for" -> [op |-> "for", tgt |-> i.tgt, it |-> Canon(i.it), end |-> i.end]
    [] i.op = "if" -> [op |-> "if", c |-> Canon(i.c), else |-> i.else]
    [] OTHER -> i
ExprsOfI(i) == CASE i.op \in {"assign", "expr"} -> <<i.e>> [] i.op = "aug" -> <<i.dst, i.e>> [] i.op = "setitem" -> <<i.obj, i.key, i.e>>
                 [] i.op = "for" -> <<i.it>> [] i.op = "if" -> <<i.c>> [] OTHER -> <<>>
FaithfulI(i) == \A k \in 1..Len(ExprsOfI(i)) : Faithful(ExprsOfI(i)[k])
=============================================================================
