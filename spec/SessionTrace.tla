----------------------------- MODULE SessionTrace -----------------------------
(* C15 trace validation.  Events are recorded by the harness around real parse / HiFiber(...)   *)
(* calls: a parse logs the deep structural digest of the five parsed objects, a compile logs    *)
(* the digest before and after and the digest of the emitted text (or the exception).  One      *)
(* trace is everything ONE interpreter did (several Session.tla histories one after the other); *)
(* it may start with "ref" events: what a fresh interpreter produced for each specification.    *)
(* The trace is accepted iff it is a behaviour of Session.tla for *some* constants D(s), T(s):  *)
(* these are learned at their first occurrence (a ref event, else the first parse / compile)    *)
(* and bound afterwards.  A rejected event does not end the validation: the event is reported,  *)
(* counted in bad, and the rest of the trace is still checked against the bound constants.      *)
EXTENDS Naturals, Sequences, FiniteSets, TLC, Json, IOUtils
Traces == JsonDeserialize(IOEnv.SESSION_TRACES).traces
VARIABLES tid, l, D, T, cur, bad
vars == <<tid, l, D, T, cur, bad>>
Tr == Traces[tid]
Ev == Tr[l]
Bind(f, x, v) == [y \in DOMAIN f \cup {x} |-> IF y = x THEN v ELSE f[y]]
Learn(f, x, v) == IF x \in DOMAIN f THEN f ELSE Bind(f, x, v)
Clause ==
  IF Ev.act = "ref" THEN "ok"
  ELSE IF Ev.act = "parse" THEN
     (IF Ev.spec \in DOMAIN D /\ D[Ev.spec] # Ev.post THEN "parsing the same specification gave different objects" ELSE "ok")
  ELSE IF cur[Ev.objs] # Ev.pre THEN "parsed objects changed between compilations"
  ELSE IF Ev.post # Ev.pre THEN "compilation mutated its parsed inputs"
  ELSE IF Ev.spec \in DOMAIN T /\ T[Ev.spec] # Ev.out THEN "same specification, different result"
  ELSE "ok"
Fail == IF Clause = "ok" THEN 0 ELSE 1
Init == tid \in 1..Len(Traces) /\ l = 1 /\ D = <<>> /\ T = <<>> /\ cur = <<>> /\ bad = 0
RefEv == /\ l <= Len(Tr) /\ Ev.act = "ref"
         /\ D' = Learn(D, Ev.spec, Ev.post) /\ T' = Learn(T, Ev.spec, Ev.out) /\ l' = l + 1 /\ UNCHANGED <<tid, cur, bad>>
ParseEv == /\ l <= Len(Tr) /\ Ev.act = "parse"
           /\ D' = Learn(D, Ev.spec, Ev.post) /\ cur' = Bind(cur, Ev.objs, Ev.post) /\ l' = l + 1 /\ bad' = bad + Fail /\ UNCHANGED <<tid, T>>
CompileEv == /\ l <= Len(Tr) /\ Ev.act = "compile"
             /\ T' = Learn(T, Ev.spec, Ev.out) /\ cur' = Bind(cur, Ev.objs, Ev.post) /\ l' = l + 1 /\ bad' = bad + Fail /\ UNCHANGED <<tid, D>>
Spec == Init /\ [][RefEv \/ ParseEv \/ CompileEv]_vars
Verdict == (l <= Len(Tr) /\ Clause # "ok") => PrintT("SESSION|" \o ToString(tid) \o "|" \o ToString(l) \o "|" \o Clause)
Accepted == (l > Len(Tr) /\ bad = 0) => PrintT("SESSIONOK|" \o ToString(tid))
=============================================================================
