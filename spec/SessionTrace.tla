----------------------------- MODULE SessionTrace -----------------------------
(* C15 trace validation.  Events are recorded by the harness around real parse / HiFiber(...)   *)
(* calls in one interpreter: a parse logs the deep structural digest of the five parsed        *)
(* objects, a compile logs the digest before and after and the digest of the emitted text (or  *)
(* the exception).  The trace is accepted iff it is a behaviour of Session.tla for *some*       *)
(* constants D(s), T(s): these are learned at their first occurrence and bound afterwards.      *)
EXTENDS Naturals, Sequences, FiniteSets, TLC, Json, IOUtils
Traces == JsonDeserialize(IOEnv.SESSION_TRACES).traces
VARIABLES tid, l, D, T, cur
vars == <<tid, l, D, T, cur>>
Tr == Traces[tid]
Ev == Tr[l]
Bind(f, x, v) == [y \in DOMAIN f \cup {x} |-> IF y = x THEN v ELSE f[y]]
Clause ==
  IF Ev.act = "parse" THEN
     (IF Ev.spec \in DOMAIN D /\ D[Ev.spec] # Ev.post THEN "parsing the same specification gave different objects" ELSE "ok")
  ELSE IF cur[Ev.objs] # Ev.pre THEN "parsed objects changed between compilations"
  ELSE IF Ev.post # Ev.pre THEN "compilation mutated its parsed inputs"
  ELSE IF Ev.spec \in DOMAIN T /\ T[Ev.spec] # Ev.out THEN "same specification, different result"
  ELSE "ok"
Init == tid \in 1..Len(Traces) /\ l = 1 /\ D = <<>> /\ T = <<>> /\ cur = <<>>
ParseEv == /\ l <= Len(Tr) /\ Ev.act = "parse" /\ Clause = "ok"
           /\ D' = Bind(D, Ev.spec, Ev.post) /\ cur' = Bind(cur, Ev.objs, Ev.post) /\ l' = l + 1 /\ UNCHANGED <<tid, T>>
CompileEv == /\ l <= Len(Tr) /\ Ev.act = "compile" /\ Clause = "ok"
             /\ T' = Bind(T, Ev.spec, Ev.out) /\ cur' = Bind(cur, Ev.objs, Ev.post) /\ l' = l + 1 /\ UNCHANGED <<tid, D>>
Spec == Init /\ [][ParseEv \/ CompileEv]_vars
Verdict == (l <= Len(Tr) /\ Clause # "ok") => PrintT("SESSION|" \o ToString(tid) \o "|" \o ToString(l) \o "|" \o Clause)
Accepted == (l > Len(Tr)) => PrintT("SESSIONOK|" \o ToString(tid))
=============================================================================
