------------------------------ MODULE PrinterGen -----------------------------
(* Generator: every binary-operator tree of depth <= Depth over the 13 printable operators and  *)
(* three leaves, each binary child optionally wrapped in parentheses (EParens).  Printed one per *)
(* line; the harness builds the real teaal.hifiber objects, prints them with gen() and parses    *)
(* the text with CPython.                                                                        *)
EXTENDS Naturals, Sequences, FiniteSets, TLC, Json
CONSTANTS Depth, OpsUsed
Ops == OpsUsed
Leaves == {[e |-> "name", id |-> "x"], [e |-> "name", id |-> "y"], [e |-> "num", n |-> 2, d |-> 1]}
Node(o, l, r) == [e |-> IF o \in {"==", "<", "in", "notin"} THEN "cmp" ELSE "bin", op |-> o, l |-> l, r |-> r]
Wrap(S) == S \cup {[e |-> "paren", x |-> t] : t \in {u \in S : u.e \in {"bin", "cmp"}}}
RECURSIVE Trees(_)
Trees(d) == IF d = 0 THEN Leaves
            ELSE LET sub == Wrap(Trees(d - 1)) IN Trees(d - 1) \cup {Node(o, l, r) : o \in Ops, l \in sub, r \in sub}
VARIABLE t
Init == t \in Trees(Depth)
Next == UNCHANGED t
Spec == Init /\ [][Next]_t
Emit == PrintT("TREEGEN|" \o ToJson(t))
=============================================================================
