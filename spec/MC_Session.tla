----------------------------- MODULE MC_Session -----------------------------
EXTENDS Session, TLC, Json
(* generator: print complete histories that end in a compile and contain at least two compiles or a reuse *)
Compiles == Cardinality({i \in 1..Len(hist) : hist[i].act = "compile"})
EmitHist == (Len(hist) = MaxLen /\ hist[Len(hist)].act = "compile" /\ Compiles >= 2) => PrintT("HIST|" \o ToJson(hist))
=============================================================================
