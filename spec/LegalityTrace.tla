---------------------------- MODULE LegalityTrace ----------------------------
(* C18 verdicts: the outcome of the real parsers + HiFiber(...) on every instance of Legality.tla. *)
(* Compiled => Legal: an illegal instance must be rejected with a ValueError before any text is  *)
(* returned; a legal one must compile (otherwise the generator, not the compiler, is at fault).    *)
EXTENDS Naturals, Sequences, TLC, Json, IOUtils
Recs == JsonDeserialize(IOEnv.LEGALITY_BATCH).recs
VARIABLE r
Init == r \in 1..Len(Recs)
Next == UNCHANGED r
Spec == Init /\ [][Next]_r
R == Recs[r]
Clause == IF R.rule = "legal" THEN (IF R.outcome = "text" THEN "ok" ELSE "GENERATOR: a legal base was rejected")
          ELSE IF R.outcome = "text" THEN "silently compiled: " \o R.rule
          ELSE IF R.outcome # "ValueError" THEN "rejected with " \o R.outcome \o " instead of ValueError: " \o R.rule
          ELSE "ok"
Verdict == Clause # "ok" => PrintT("LEGALITY|" \o ToString(r) \o "|" \o Clause)
=============================================================================
