------------------------------ MODULE FusionInd ------------------------------
(* Unbounded-history argument for C13 (optional, Apalache): the legality invariants of          *)
(* Fusion.tla are inductive.  The same actions as Fusion.tla, with the descriptor's temporal     *)
(* prefix abstracted to a field `pre` (the induction does not depend on how the prefix is         *)
(* computed) and OrderedPartition stated without recursion.  Checked with                         *)
(*   apalache-mc check --init=IndInit --inv=IndInv --length=1 FusionInd.tla   (IndInv is inductive) *)
(*   apalache-mc check --init=Init    --inv=IndInv --length=0 FusionInd.tla   (holds initially)     *)
EXTENDS Integers, Sequences, FiniteSets, Apalache
\* @typeAlias: desc = { cfg: Str, pre: Str, comps: Set(Str) };
Configs == {"cA", "cB"}
Prefixes == {"p0", "p1", "p2"}
Comps == {"f0", "f1", "f2"}
VARIABLES
  \* @type: Seq($desc);
  hist,
  \* @type: Seq(Seq(Int));
  blocks
Desc == [cfg : Configs, pre : Prefixes, comps : SUBSET Comps]
\* @type: ($desc, $desc) => Bool;
Compatible(x, y) == x.cfg = y.cfg /\ x.pre = y.pre /\ x.comps \cap y.comps = {}
Init == hist = <<>> /\ blocks = <<>>
\* @type: (Seq(Seq(Int))) => Seq(Int);
LastB(bs) == bs[Len(bs)]
\* @type: ($desc) => Bool;
CanExtend(e) == /\ Len(blocks) > 0
                /\ \A k \in DOMAIN LastB(blocks) : Compatible(hist[LastB(blocks)[k]], e)
\* @type: ($desc) => Bool;
NewBlock(e) == /\ hist' = Append(hist, e)
               /\ blocks' = Append(blocks, <<Len(hist) + 1>>)
\* @type: ($desc) => Bool;
Extend(e) == /\ CanExtend(e)
             /\ hist' = Append(hist, e)
             /\ blocks' = [blocks EXCEPT ![Len(blocks)] = Append(@, Len(hist) + 1)]
Next == \E e \in Desc : NewBlock(e) \/ Extend(e)
\* ---- invariants (OrderedPartition without recursion: consecutive runs covering 1..Len(hist)) ----
NonEmptyBlocks == \A b \in DOMAIN blocks : Len(blocks[b]) > 0
Consecutive == \A b \in DOMAIN blocks : \A i \in DOMAIN blocks[b] : (i + 1) \in DOMAIN blocks[b] => blocks[b][i + 1] = blocks[b][i] + 1
Chained == /\ (Len(blocks) > 0 => blocks[1][1] = 1)
           /\ \A b \in DOMAIN blocks : (b + 1) \in DOMAIN blocks => blocks[b + 1][1] = blocks[b][Len(blocks[b])] + 1
           /\ (Len(blocks) > 0 => blocks[Len(blocks)][Len(blocks[Len(blocks)])] = Len(hist))
           /\ (Len(blocks) = 0 => Len(hist) = 0)
InRange == \A b \in DOMAIN blocks : \A i \in DOMAIN blocks[b] : blocks[b][i] \in DOMAIN hist
BlockLegal == \A b \in DOMAIN blocks : \A i, j \in DOMAIN blocks[b] : i < j => Compatible(hist[blocks[b][i]], hist[blocks[b][j]])
TypeOK == \A k \in DOMAIN hist : hist[k] \in Desc
IndInv == TypeOK /\ NonEmptyBlocks /\ Consecutive /\ Chained /\ InRange /\ BlockLegal
\* an arbitrary state satisfying IndInv (bounded shapes are enough for the generator; the step is then checked symbolically)
IndInit == /\ hist \in Gen(4)
           /\ blocks \in Gen(4)
           /\ IndInv
=============================================================================
