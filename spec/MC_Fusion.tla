----------------------------- MODULE MC_Fusion ------------------------------
(* Exhaustive instance of Fusion.tla: 2 configurations, loop order <<M,K,N>>, five space lists *)
(* (including one not in loop order), subsets of 2 functional components.                      *)
EXTENDS Fusion, TLC, Json
MCLoops == {<<"M", "K", "N">>}
MCSpaces == {<<>>, <<"N">>, <<"K">>, <<"M">>, <<"N", "M">>}
(* generator: one line per complete history (behaviours of Fusion.tla replayed into the implementation) *)
EmitHist == Len(hist) = MaxLen => PrintT("HIST|" \o ToJson(hist))
=============================================================================
