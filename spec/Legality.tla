------------------------------ MODULE Legality -------------------------------
(* C18: the stated mapping-legality rules, as injections into otherwise legal specifications.   *)
(* An abstract specification is a record                                                        *)
(*   decl  : Seq([name, ranks])            exprs : Seq([out : access, terms : Seq(Seq(access))])   *)
(*   part  : Seq([einsum, entries : Seq([ranks, dirs])])   lo : Seq([einsum, ranks])                *)
(*   hw    : "none" | "ok" | "noconfig"  (+ hwmiss: the Einsum whose config entry is left out)     *)
(* with access = [name, idx : Seq(STRING)] (idx = <<"$">> marks a scalar operand).                 *)
(* For every rule, Instances(rule) applies the violation at every site of every base where it     *)
(* can be applied (every tensor and position, every factor, every term, every rank of a tuple,    *)
(* every level of a stack ...).  Expectation of the property: no instance compiles.              *)
EXTENDS Naturals, Sequences, FiniteSets, TLC, Json
Acc(n, ix) == [name |-> n, idx |-> ix]
D(n, rs) == [name |-> n, ranks |-> rs]
NoMap == [part |-> <<>>, lo |-> <<>>, hw |-> "none", hwmiss |-> ""]
Mk(decl, exprs) == [decl |-> decl, exprs |-> exprs] @@ NoMap
Gemm == Mk(<<D("A", <<"K", "M">>), D("B", <<"K", "N">>), D("Z", <<"M", "N">>)>>,
           << [out |-> Acc("Z", <<"m", "n">>), terms |-> << <<Acc("A", <<"k", "m">>), Acc("B", <<"k", "n">>)>> >>] >>)
Three == Mk(<<D("A", <<"J", "K", "M">>), D("B", <<"J", "K">>), D("C", <<"M">>), D("Z", <<"M">>)>>,
            << [out |-> Acc("Z", <<"m">>), terms |-> << <<Acc("A", <<"j", "k", "m">>), Acc("B", <<"j", "k">>), Acc("C", <<"m">>)>> >>] >>)
Sum3 == Mk(<<D("A", <<"M">>), D("B", <<"M">>), D("C", <<"M">>), D("Z", <<"M">>)>>,
           << [out |-> Acc("Z", <<"m">>), terms |-> << <<Acc("A", <<"m">>)>>, <<Acc("B", <<"m">>)>>, <<Acc("C", <<"m">>)>> >>] >>)
SumProd == Mk(<<D("A", <<"K", "M">>), D("B", <<"K">>), D("C", <<"K", "M">>), D("Z", <<"M">>)>>,
              << [out |-> Acc("Z", <<"m">>), terms |-> << <<Acc("A", <<"k", "m">>), Acc("B", <<"k">>)>>, <<Acc("C", <<"k", "m">>)>> >>] >>)
Conv == Mk(<<D("I", <<"W">>), D("F", <<"S">>), D("O", <<"Q">>)>>,
           << [out |-> Acc("O", <<"q">>), terms |-> << <<Acc("I", <<"q + s">>), Acc("F", <<"s">>)>> >>] >>)
Conv2 == Mk(<<D("I", <<"P", "W">>), D("F", <<"S">>), D("O", <<"P", "Q">>)>>,
            << [out |-> Acc("O", <<"p", "q">>), terms |-> << <<Acc("I", <<"p", "q + s">>), Acc("F", <<"s">>)>> >>] >>)
Four == Mk(<<D("A", <<"J", "K", "M", "N">>), D("Z", <<"M">>)>>,
           << [out |-> Acc("Z", <<"m">>), terms |-> << <<Acc("A", <<"j", "k", "m", "n">>)>> >>] >>)
Copy3 == Mk(<<D("A", <<"K", "M", "N">>), D("Z", <<"K", "M", "N">>)>>,
            << [out |-> Acc("Z", <<"k", "m", "n">>), terms |-> << <<Acc("A", <<"k", "m", "n">>)>> >>] >>)
Cascade == Mk(<<D("A", <<"K", "M">>), D("B", <<"K", "N">>), D("T", <<"M", "N">>), D("Z", <<"M">>)>>,
              << [out |-> Acc("T", <<"m", "n">>), terms |-> << <<Acc("A", <<"k", "m">>), Acc("B", <<"k", "n">>)>> >>],
                 [out |-> Acc("Z", <<"m">>), terms |-> << <<Acc("T", <<"m", "n">>)>> >>] >>)
\* an output rank that no input carries (output-only), for rule 14
OutOnly == Mk(<<D("A", <<"K">>), D("Z", <<"K", "M">>)>>,
              << [out |-> Acc("Z", <<"k", "m">>), terms |-> << <<Acc("A", <<"k">>)>> >>] >>)
OutOnly2 == Mk(<<D("A", <<"K">>), D("B", <<"K">>), D("Z", <<"K", "M">>)>>,
               << [out |-> Acc("Z", <<"k", "m">>), terms |-> << <<Acc("A", <<"k">>), Acc("B", <<"k">>)>> >>] >>)
Inst(rule, site, spec) == [rule |-> rule, site |-> site, spec |-> spec]
Swap(s, i, v) == [s EXCEPT ![i] = v]
WithPart(b, e, entries) == [b EXCEPT !.part = <<[einsum |-> e, entries |-> entries]>>]
WithLo(b, e, ranks) == [b EXCEPT !.lo = <<[einsum |-> e, ranks |-> ranks]>>]
Ent(rs, ds) == [ranks |-> rs, dirs |-> ds]
-----------------------------------------------------------------------------
Pairs(n) == {pq \in (1..n) \X (1..n) : pq[1] # pq[2]}
FacPos(b, e) == UNION {{<<t, f>> : f \in 1..Len(b.exprs[e].terms[t])} : t \in 1..Len(b.exprs[e].terms)}
SetFac(b, e, t, f, a) == [b EXCEPT !.exprs[e].terms[t][f] = a]
\* 1. duplicate rank in a declaration: every tensor, every ordered pair of positions
DupRank == UNION {UNION {{Inst("duplicate rank in a declaration", <<b.decl[t].name, pq[1], pq[2]>>,
                                [b EXCEPT !.decl[t].ranks[pq[2]] = b.decl[t].ranks[pq[1]]]) : pq \in Pairs(Len(b.decl[t].ranks))}
                         : t \in 1..Len(b.decl)} : b \in {Gemm, Three, Copy3, Four}}
\* 2. undeclared tensor: every factor position (and the output)
Undeclared == UNION {{Inst("undeclared tensor in an Einsum", <<"factor", p[1], p[2]>>,
                           SetFac(b, 1, p[1], p[2], Acc("Q9", b.exprs[1].terms[p[1]][p[2]].idx))) : p \in FacPos(b, 1)}
                     \cup {Inst("undeclared tensor in an Einsum", <<"output">>, [b EXCEPT !.exprs[1].out.name = "Q9"])}
                    : b \in {Gemm, Three, Sum3, SumProd}}
\* 3. repeated tensor: every ordered pair of factor positions (the second becomes a copy of the first), also across terms
Repeated == UNION {{Inst("repeated tensor in an Einsum", <<p, q>>, SetFac(b, 1, q[1], q[2], b.exprs[1].terms[p[1]][p[2]])) :
                      p \in FacPos(b, 1), q \in FacPos(b, 1)} \ {Inst("repeated tensor in an Einsum", <<p, p>>, b) : p \in FacPos(b, 1)}
                  : b \in {Gemm, Three, Sum3}}
            \cup UNION {{Inst("repeated tensor in an Einsum", <<p, <<0, 0>>>>, SetFac(b, 1, p[1], p[2], b.exprs[1].out)) : p \in FacPos(b, 1)}
                        : b \in {Sum3, [Gemm EXCEPT !.decl[3].ranks = <<"K", "M">>, !.exprs[1].out.idx = <<"k", "m">>]}}
\* 4. terms ranging over different rank sets: every term of a sum gets an extra variable / loses one
TermRanks == UNION {{Inst("terms ranging over different rank sets", <<"extra variable in term", t>>,
                          [b EXCEPT !.exprs[1].terms[t][1].idx = Append(@, "x"), !.decl[t].ranks = Append(@, "X")]) : t \in 1..Len(b.exprs[1].terms)}
                   : b \in {Sum3}}
             \cup {Inst("terms ranging over different rank sets", <<"second term lacks k">>,
                        [SumProd EXCEPT !.exprs[1].terms[2][1].idx = <<"m">>, !.decl[3].ranks = <<"M">>]),
                   Inst("terms ranging over different rank sets", <<"first term lacks k">>,
                        [SumProd EXCEPT !.exprs[1].terms[1] = <<Acc("A", <<"m">>)>>, !.decl[1].ranks = <<"M">>])}
\* 5. flatten() combined with other directives: every position of flatten() in stacks of 2-3 directives
Others == {"uniform_shape(2)", "nway_shape(2)", "uniform_occupancy(A.2)", "flatten()"}
FlattenCombined == {Inst("flatten() combined with other directives", <<"stack", ds>>, WithPart(Gemm, "Z", <<Ent(<<"K", "M">>, ds)>>)) :
                       ds \in {<<"flatten()", o>> : o \in Others} \cup {<<o, "flatten()">> : o \in Others}
                              \cup {<<o, "flatten()", o2>> : o \in {"uniform_shape(2)"}, o2 \in {"uniform_occupancy(A.2)", "uniform_shape(1)"}}}
\* 6. flatten() on fewer than two ranks: every rank
FlattenOne == {Inst("flatten() on fewer than two ranks", <<r>>, WithPart(Gemm, "Z", <<Ent(<<r>>, <<"flatten()">>)>>)) : r \in {"K", "M", "N"}}
\* 7. flatten() on index-math ranks: every tuple of one tensor containing a rank used in index math
FlattenMath == {Inst("flatten() on index-math ranks", <<rs>>, WithPart(Conv2, "O", <<Ent(rs, <<"flatten()">>)>>)) :
                   rs \in {<<"P", "Q">>, <<"Q", "P">>, <<"P", "W">>, <<"W", "P">>}}
\* 8. flatten() on ranks also partitioned independently: every rank of the tuple x directive kind, either order of the entries
FlattenAlsoPart == UNION {{Inst("flatten() on ranks also partitioned independently", <<r, d, "tuple first">>,
                                WithPart(Gemm, "Z", <<Ent(<<"K", "M">>, <<"flatten()">>), Ent(<<r>>, <<d>>)>>)),
                           Inst("flatten() on ranks also partitioned independently", <<r, d, "rank first">>,
                                WithPart(Gemm, "Z", <<Ent(<<r>>, <<d>>), Ent(<<"K", "M">>, <<"flatten()">>)>>))} :
                          r \in {"K", "M"}, d \in {"uniform_shape(2)", "nway_shape(2)", "uniform_occupancy(A.2)"}}
\* 9. flatten() on already flattened ranks: the flattened rank in either position of a second tuple
FlattenFlat == {Inst("flatten() on already flattened ranks", <<rs>>, WithPart(Copy3, "Z", <<Ent(<<"K", "M">>, <<"flatten()">>), Ent(rs, <<"flatten()">>)>>)) :
                   rs \in {<<"KM", "N">>, <<"N", "KM">>}}
\* 10. an n-way split after an occupancy split: every position after the first occupancy level in stacks of 2-3
UO == "uniform_occupancy(A.2)"
NwayAfterOcc == {Inst("n-way split after an occupancy split", <<r, ds>>, WithPart(Gemm, "Z", <<Ent(<<r>>, ds)>>)) :
                    r \in {"K", "M"}, ds \in {<<UO, "nway_shape(2)">>, <<"uniform_shape(4)", UO, "nway_shape(2)">>, <<UO, UO, "nway_shape(2)">>,
                                               <<UO, "nway_shape(2)", UO>>, <<"nway_shape(2)", UO, "nway_shape(2)">>,
                                               <<"uniform_occupancy(A.4)", UO, "nway_shape(2)">>, <<"uniform_shape(8)", "uniform_shape(4)", UO, "nway_shape(2)">>,
                                               \* not immediately after the occupancy split
                                               <<"uniform_occupancy(A.6)", "uniform_shape(4)", "nway_shape(2)">>, <<UO, "uniform_shape(4)", "uniform_shape(2)", "nway_shape(2)">>,
                                               <<"uniform_shape(8)", UO, "uniform_shape(2)", "nway_shape(2)">>}}
\* 11. a shape split after flattening
\* (the entries of the mapping in either order; the shape split first, or after one or two occupancy splits of the flattened rank)
ShapeAfterFlattenStacks == {<<"uniform_shape(2)">>, <<"nway_shape(2)">>, <<"uniform_shape(4)", "uniform_occupancy(A.2)">>, <<"nway_shape(2)", "uniform_occupancy(A.2)">>,
                            <<"uniform_occupancy(A.4)", "uniform_shape(2)">>, <<"uniform_occupancy(A.4)", "uniform_occupancy(A.2)", "uniform_shape(2)">>}
ShapeAfterFlatten == {Inst("a shape split after flattening", <<ds, "tuple first">>, WithPart(Gemm, "Z", <<Ent(<<"K", "M">>, <<"flatten()">>), Ent(<<"KM">>, ds)>>)) : ds \in ShapeAfterFlattenStacks}
                     \cup {Inst("a shape split after flattening", <<ds, "flattened rank first">>, WithPart(Gemm, "Z", <<Ent(<<"KM">>, ds), Ent(<<"K", "M">>, <<"flatten()">>)>>)) : ds \in ShapeAfterFlattenStacks}
\* 12. a non-flatten directive on a rank tuple: 2- and 3-tuples x directive kinds
NonFlattenTuple == {Inst("a non-flatten directive on a rank tuple", <<rs, d>>, WithPart(b, "Z", <<Ent(rs, <<d>>)>>)) :
                       b \in {Copy3}, rs \in {<<"K", "M">>, <<"M", "N">>, <<"K", "M", "N">>}, d \in {"uniform_shape(2)", "nway_shape(2)", "uniform_occupancy(A.2)"}}
                   \cup {Inst("a non-flatten directive on a rank tuple", <<ds, "two directives">>, WithPart(Copy3, "Z", <<Ent(<<"K", "M">>, ds)>>)) :
                       ds \in {<<"uniform_occupancy(A.2)", "uniform_shape(2)">>, <<"uniform_shape(4)", "uniform_shape(2)">>, <<"nway_shape(2)", "uniform_occupancy(A.2)">>}}
\* 13. a loop order that projects into the output: every loop order over the input's own rank when the output is driven
ProjectOut == {Inst("a loop order that projects into the output", <<lo>>, WithLo(Conv, "O", lo)) : lo \in {<<"W", "S">>, <<"S", "W">>}}
         \cup {Inst("a loop order that projects into the output", <<lo>>, WithLo(Conv2, "O", lo)) :
                  lo \in {<<"P", "W", "S">>, <<"W", "P", "S">>, <<"S", "P", "W">>, <<"P", "S", "W">>}}
         \cup {Inst("a loop order that projects into the output", <<lo>>,
                    WithLo(WithPart(Conv, "O", <<Ent(<<"Q">>, <<"uniform_shape(2)">>), Ent(<<"W">>, <<"follow(Q)">>)>>), "O", lo)) :
                  lo \in {<<"W1", "S", "W0">>, <<"W1", "W0", "S">>, <<"S", "W1", "W0">>}}
\* 14. a loop order that iterates an output-only flattened rank
OutOnlyFlat == {Inst("a loop order that iterates an output-only flattened rank", <<b.decl[1].name, lo>>,
                     WithLo(WithPart(b, "Z", <<Ent(<<"K", "M">>, <<"flatten()">>)>>), "Z", lo)) : b \in {OutOnly, OutOnly2}, lo \in {<<"KM">>}}
\* 15. an Einsum without accelerator config in the bindings: each Einsum of a cascade
NoConfig == {Inst("an Einsum without accelerator config in the bindings", <<e>>, [Cascade EXCEPT !.hw = "noconfig", !.hwmiss = e]) : e \in {"T", "Z"}}
-----------------------------------------------------------------------------
Illegal == DupRank \cup Undeclared \cup Repeated \cup TermRanks \cup FlattenCombined \cup FlattenOne \cup FlattenMath \cup FlattenAlsoPart
           \cup FlattenFlat \cup NwayAfterOcc \cup ShapeAfterFlatten \cup NonFlattenTuple \cup ProjectOut \cup OutOnlyFlat \cup NoConfig
\* the bases themselves (and legal neighbours of the injections) must compile: guards the generator against vacuity
LegalOnes == {Inst("legal", <<n>>, b) : <<n, b>> \in {<<"gemm", Gemm>>, <<"three", Three>>, <<"sum3", Sum3>>, <<"sumprod", SumProd>>, <<"conv", Conv>>, <<"conv2", Conv2>>,
                 <<"copy3", Copy3>>, <<"cascade", Cascade>>, <<"outonly", OutOnly>>, <<"cascade-hw", [Cascade EXCEPT !.hw = "ok"]>>,
                 <<"flatten-ok", WithPart(Gemm, "Z", <<Ent(<<"K", "M">>, <<"flatten()">>)>>)>>,
                 <<"flatten-then-occupancy", WithPart(Gemm, "Z", <<Ent(<<"K", "M">>, <<"flatten()">>), Ent(<<"KM">>, <<UO>>)>>)>>,
                 <<"occupancy-after-shape", WithPart(Gemm, "Z", <<Ent(<<"K">>, <<"uniform_shape(4)", UO>>)>>)>>,
                 <<"conv-own-rank", WithLo(Conv, "O", <<"Q", "S">>)>>}}
VARIABLE i
Init == i \in Illegal \cup LegalOnes
Next == UNCHANGED i
Spec == Init /\ [][Next]_i
Emit == PrintT("LEGAL|" \o ToJson(i))
=============================================================================
