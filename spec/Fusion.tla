------------------------------- MODULE Fusion -------------------------------
(* Fusion blocks of a cascade (property C13).  One AddEinsum step per Einsum, as in            *)
(* teaal/ir/fusion.py Fusion.add_einsum.  The step is deliberately permissive: opening a new   *)
(* block is always allowed ("only if", not "if"), extending the open block only when the       *)
(* property allows it.  A descriptor says what the property talks about: the hardware          *)
(* configuration, the loop order, the ranks mapped to space, the functional components bound.  *)
EXTENDS Naturals, Sequences, FiniteSets
CONSTANTS Configs, Loops, Spaces, Comps, MaxLen
Desc == [cfg : Configs, loop : Loops, space : Spaces, comps : SUBSET Comps]
VARIABLES hist,      \* descriptors of the Einsums fed so far, in program order
          blocks     \* sequence of blocks, each a sequence of indices into hist
vars == <<hist, blocks>>
SeqSet(s) == {s[i] : i \in 1..Len(s)}
(* temporal loop ranks ahead of the first spatial rank *in loop order* *)
TemporalPrefix(d) ==
  LET spat == {i \in 1..Len(d.loop) : d.loop[i] \in SeqSet(d.space)} IN
  IF spat = {} THEN d.loop
  ELSE SubSeq(d.loop, 1, (CHOOSE i \in spat : \A j \in spat : i <= j) - 1)
Compatible(x, y) == x.cfg = y.cfg /\ TemporalPrefix(x) = TemporalPrefix(y) /\ x.comps \cap y.comps = {}
Init == hist = <<>> /\ blocks = <<>>
Last(s) == s[Len(s)]
CanExtend(e) == /\ blocks # <<>>
                /\ \A k \in 1..Len(Last(blocks)) : Compatible(hist[Last(blocks)[k]], e)
NewBlock(e) == /\ hist' = Append(hist, e)
               /\ blocks' = Append(blocks, <<Len(hist) + 1>>)
Extend(e) == /\ CanExtend(e)
             /\ hist' = Append(hist, e)
             /\ blocks' = [blocks EXCEPT ![Len(blocks)] = Append(@, Len(hist) + 1)]
AddEinsum(e) == NewBlock(e) \/ Extend(e)
Next == Len(hist) < MaxLen /\ \E e \in Desc : AddEinsum(e)
Spec == Init /\ [][Next]_vars
\* the intended implementation (a refinement): extend whenever allowed
Greedy(e) == IF CanExtend(e) THEN Extend(e) ELSE NewBlock(e)
GreedySpec == Init /\ [][Len(hist) < MaxLen /\ \E e \in Desc : Greedy(e)]_vars
-----------------------------------------------------------------------------
RECURSIVE Flat(_)
Flat(bs) == IF bs = <<>> THEN <<>> ELSE Head(bs) \o Flat(Tail(bs))
\* every Einsum exactly once, in program order, in contiguous groups
OrderedPartition == Flat(blocks) = [i \in 1..Len(hist) |-> i]
NonEmptyBlocks == \A b \in 1..Len(blocks) : blocks[b] # <<>>
\* two Einsums share a block only if same configuration, identical temporal prefix, disjoint functional components
BlockLegal == \A b \in 1..Len(blocks) : \A i, j \in 1..Len(blocks[b]) : i < j =>
                 Compatible(hist[blocks[b][i]], hist[blocks[b][j]])
\* blocks only ever grow at the end (action property)
AppendOnly == [][/\ Len(blocks') >= Len(blocks)
                 /\ \A b \in 1..(Len(blocks) - 1) : blocks'[b] = blocks[b]]_vars
=============================================================================
