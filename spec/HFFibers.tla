------------------------------ MODULE HFFibers ------------------------------
(* Expression evaluation and fiber iterables of the reference HiFiber model: & | << project      *)
(* prune iterRangeShapeRef enumerate fromLazy getPayload(Ref) and the arithmetic the compiler    *)
(* emits, over exact rationals.  Pure operators: (expression, environment, store) -> value.      *)
EXTENDS HFStore
(* expressions *)
IsCallTo(e, name) == e.e = "call" /\ e.fn.e = "name" /\ e.fn.id = name
IsMeth(e, name) == e.e = "call" /\ e.fn.e = "attr" /\ e.fn.name = name
Deref(st, v) == IF v.k = "ref" THEN NumI(LeafVal(st, v.sid, v.path)) ELSE IF v.k = "dflt" THEN NumI(0) ELSE v

RECURSIVE Eval(_, _, _), Iter(_, _, _)
Eval(e, en, st) ==
  CASE e.e = "name" -> en[e.id]
    [] e.e = "num" -> Num(e.n, e.d)
    [] e.e = "str" -> [k |-> "str", s |-> e.s]
    [] e.e = "bool" -> Bool(e.b)
    [] e.e = "none" -> None
    [] e.e = "dict" -> [k |-> "dict", f |-> [i \in {Eval(e.keys[j], en, st) : j \in 1..Len(e.keys)} |-> Eval(e.vals[CHOOSE j \in 1..Len(e.keys) : Eval(e.keys[j], en, st) = i], en, st)]]
    [] IsMeth(e, "keys") -> [k |-> "set", s |-> DOMAIN Eval(e.fn.obj, en, st).f]
    [] e.e \in {"tuple", "list"} -> Tup([i \in 1..Len(e.elts) |-> Eval(e.elts[i], en, st)])
    [] e.e = "neg" -> NSub(NumI(0), Deref(st, Eval(e.x, en, st)))
    [] e.e = "bin" -> (LET a == Deref(st, Eval(e.l, en, st))  b == Deref(st, Eval(e.r, en, st)) IN
         (CASE e.op = "+" -> NAdd(a, b) [] e.op = "-" -> NSub(a, b) [] e.op = "*" -> NMul(a, b)
           [] e.op = "/" -> NDiv(a, b) [] e.op = "//" -> NumI(NFloor(NDiv(a, b))) [] e.op = "%" -> NMod(a, b)))
    [] e.e = "cmp" -> (LET a == Deref(st, Eval(e.l, en, st))  b == Deref(st, Eval(e.r, en, st)) IN
         (CASE e.op = "==" -> Bool(a = b) [] e.op = "<" -> Bool(NLt(a, b))
           [] e.op = "in" -> Bool(a \in b.s) [] e.op = "notin" -> Bool(a \notin b.s)))
    [] IsCallTo(e, "set") -> [k |-> "set", s |-> {}]
    [] IsCallTo(e, "float") -> Str("inf")
    [] e.e = "call" /\ e.fn.e = "name" /\ e.fn.id \in {"LeaderFollowerIntersector", "SkipAheadIntersector", "TwoFingerIntersector", "Format", "Tensor"} -> [k |-> "obj", cls |-> e.fn.id]
    [] IsMeth(e, "copy") -> [k |-> "obj", cls |-> "iter"]
    [] IsMeth(e, "getIter") -> [k |-> "obj", cls |-> "iter"]
    [] IsMeth(e, "consumeTrace") -> [k |-> "obj", cls |-> "trace"]
    [] IsMeth(e, "dump") -> [k |-> "standin"]
    [] e.e = "call" /\ e.fn.e = "attr" /\ e.fn.name \in {"numSwaps", "numIters", "getNumIntersects"} -> NumI(Primes[(en["$std"].n % Len(Primes)) + 1])
    [] e.e = "call" /\ e.fn.e = "attr" /\ e.fn.name \in {"buffetTraffic", "cacheTraffic"} ->
         (LET bs == Eval(e.args[1], en, st)
              ts == {bs.v[i].f[Str("tensor")] : i \in 1..Len(bs.v)}
              idx(t) == CHOOSE i \in 1..Len(bs.v) : bs.v[i].f[Str("tensor")] = t /\ \A j \in 1..(i - 1) : bs.v[j].f[Str("tensor")] # t IN
          Tup(<<Dict([t \in ts |-> Dict([q \in {Str("read"), Str("write")} |->
                   NumI(Primes[((2 * en["$std"].n + 7 * idx(t) + (IF q.s = "read" THEN 0 ELSE 1)) % Len(Primes)) + 1])])])>>))
    [] IsCallTo(e, "max") -> (LET vs == [i \in 1..Len(e.args) |-> Deref(st, Eval(e.args[i], en, st))]
                                  best == CHOOSE i \in 1..Len(vs) : \A j \in 1..Len(vs) : NLe(vs[j], vs[i]) IN vs[best])
    [] IsCallTo(e, "len") -> NumI(Len(Eval(e.args[1], en, st).el))
    [] IsCallTo(e, "int") -> (LET a == Deref(st, Eval(e.args[1], en, st)) IN NumI(IF a.n >= 0 THEN a.n \div a.d ELSE -((-a.n) \div a.d)))
    [] IsCallTo(e, "min") -> (LET a == Deref(st, Eval(e.args[1], en, st))  b == Deref(st, Eval(e.args[2], en, st)) IN IF NLe(a, b) THEN a ELSE b)
    [] IsMeth(e, "getCoords") -> (LET f == Eval(e.fn.obj, en, st) IN Tup([i \in 1..Len(f.el) |-> CoordVal(f.el[i].c)]))
    [] IsMeth(e, "getPayload") ->
         LET f == Eval(e.fn.obj, en, st)
             RECURSIVE Walk(_, _)
             Walk(v, i) == IF i > Len(e.args) THEN v
                           ELSE LET c == ValCoord(Eval(e.args[i], en, st)) IN
                                IF v.k = "view" THEN
                                   (IF c \in CoordsAt(st[v.sid].m, v.pre) THEN Walk(Child(st, v, c), i + 1) ELSE Walk(ViewDefault(v), i + 1))
                                ELSE Walk([k |-> "dflt"], i + 1)
         IN Walk(f, 1)
    [] IsMeth(e, "getPayloadRef") ->
         LET f == Eval(e.fn.obj, en, st)
             RECURSIVE WalkR(_, _)
             WalkR(v, i) == IF i > Len(e.args) THEN v ELSE WalkR(ChildRef(v, ValCoord(Eval(e.args[i], en, st))), i + 1)
         IN WalkR(f, 1)
    [] IsMeth(e, "fromLazy") -> (LET xs == Iter(e.args[1], en, st) IN [k |-> "lf", el |-> xs.el, df |-> xs.df])
    [] e.e = "index" -> (LET o == Eval(e.obj, en, st) IN
         IF o.k = "dict" THEN o.f[Eval(e.key, en, st)] ELSE IF o.k = "standin" THEN (IF e.obj.e = "index" THEN NumI(Primes[(en["$std"].n % Len(Primes)) + 1]) ELSE o) ELSE o.v[NFloor(Eval(e.key, en, st)) + 1])

(* iterables: [el |-> Seq([c, p]), df |-> default payload] *)
Find(xs, c) == xs[CHOOSE i \in 1..Len(xs) : xs[i].c = c].p
Iter(e, en, st) ==
  CASE e.e = "name" -> (LET v == en[e.id] IN
         IF v.k = "view" THEN [el |-> ViewElems(st, v), df |-> ViewDefault(v)]
         ELSE IF v.k = "dflt" THEN [el |-> <<>>, df |-> v] ELSE [el |-> v.el, df |-> v.df])
    [] e.e = "bin" /\ e.op = "<<" ->
         LET z == Eval(e.l, en, st)  x == Iter(e.r, en, st) IN
         [el |-> [i \in 1..Len(x.el) |-> [c |-> x.el[i].c, p |-> Tup(<<ChildRef(z, x.el[i].c), x.el[i].p>>)]],
          df |-> Tup(<<ViewDefault(z), x.df>>)]
    [] e.e = "bin" /\ e.op = "&" ->
         LET x == Iter(e.l, en, st)  y == Iter(e.r, en, st)
             cs == SortC({x.el[i].c : i \in 1..Len(x.el)} \cap {y.el[i].c : i \in 1..Len(y.el)}) IN
         [el |-> [i \in 1..Len(cs) |-> [c |-> cs[i], p |-> Tup(<<Find(x.el, cs[i]), Find(y.el, cs[i])>>)]],
          df |-> Tup(<<x.df, y.df>>)]
    [] e.e = "bin" /\ e.op = "|" ->
         LET x == Iter(e.l, en, st)  y == Iter(e.r, en, st)
             cx == {x.el[i].c : i \in 1..Len(x.el)}  cy == {y.el[i].c : i \in 1..Len(y.el)}
             cs == SortC(cx \cup cy) IN
         [el |-> [i \in 1..Len(cs) |-> [c |-> cs[i], p |-> Tup(<<[k |-> "str", s |-> "mask"],
                     IF cs[i] \in cx THEN Find(x.el, cs[i]) ELSE x.df,
                     IF cs[i] \in cy THEN Find(y.el, cs[i]) ELSE y.df>>)]],
          df |-> Tup(<<[k |-> "str", s |-> "mask"], x.df, y.df>>)]
    [] IsMeth(e, "intersection") ->      \* Fiber.intersection(f1, .., fn, style=..): read as f1 & (f2 & (.. & fn)) (A10: the only reading
         LET n == Len(e.args)             \* under which the payload patterns the compiler itself emits destructure)
             its == [k \in 1..n |-> Iter(e.args[k], en, st)]
             cset(k) == {its[k].el[i].c : i \in 1..Len(its[k].el)}
             RECURSIVE Common(_)
             Common(k) == IF k = n THEN cset(n) ELSE cset(k) \cap Common(k + 1)
             cs == SortC(Common(1))
             RECURSIVE Nest(_, _), NestD(_)
             Nest(k, c) == IF k = n THEN Find(its[n].el, c) ELSE Tup(<<Find(its[k].el, c), Nest(k + 1, c)>>)
             NestD(k) == IF k = n THEN its[n].df ELSE Tup(<<its[k].df, NestD(k + 1)>>) IN
         [el |-> [i \in 1..Len(cs) |-> [c |-> cs[i], p |-> Nest(1, cs[i])]], df |-> NestD(1)]
    [] IsMeth(e, "project") ->
         LET x == Iter(e.fn.obj, en, st)
             lam == Kw(e, "trans_fn")
             iv == Kw(e, "interval")
             fx(c) == Eval(lam.body, Bind(en, lam.params[1], CoordVal(c)), st)
             \* IEEE-754 facts of this lambda (computed by CPython's float arithmetic, attached to the lambda by the converter): the
             \* points at which the exact value is an integer and the double-precision value is not; there the projected coordinate is
             \* moved off the integer by 1/SCALE in the recorded direction (what matters downstream is only that it is no integer and
             \* on which side of integer interval bounds it lies)
             IsInt(v, k) == v.k = "num" /\ v.n = k * v.d
             Hit(c) == IF "ieee" \notin DOMAIN lam \/ Len(c) # 1 THEN {}
                       ELSE {k \in 1..Len(lam.ieee) : /\ lam.ieee[k].arg * SCALE = c[1]
                                                      /\ \A j \in 1..Len(lam.fv) : lam.fv[j] \in DOMAIN en /\ IsInt(en[lam.fv[j]], lam.ieee[k].fv[j])}
             f(c) == IF Hit(c) = {} THEN fx(c) ELSE NAdd(fx(c), Num(lam.ieee[CHOOSE k \in Hit(c) : TRUE].delta, SCALE))
             ys == [i \in 1..Len(x.el) |-> [c |-> f(x.el[i].c), p |-> x.el[i].p]]
             t == IF iv.e = "absent" THEN None ELSE Eval(iv, en, st)
             keep == {i \in 1..Len(ys) : iv.e = "absent" \/ (NLe(t.v[1], ys[i].c) /\ NLt(ys[i].c, t.v[2]))}
             srt == SetToSortSeq(keep, LAMBDA i, j : NLt(ys[i].c, ys[j].c)) IN
         [el |-> [i \in 1..Len(srt) |-> [c |-> <<ScaledOf(ys[srt[i]].c)>>, p |-> ys[srt[i]].p]], df |-> x.df]
    [] IsMeth(e, "prune") ->        \* only the emitted form: lambda i, c, p: c % 1 == 0
         LET x == Iter(e.fn.obj, en, st)
             keep == {i \in 1..Len(x.el) : x.el[i].c[1] % SCALE = 0}
             srt == SetToSortSeq(keep, <) IN
         [el |-> [i \in 1..Len(srt) |-> x.el[srt[i]]], df |-> x.df]
    [] IsMeth(e, "iterRangeShapeRef") ->
         LET z == Eval(e.fn.obj, en, st)
             a == NFloor(Eval(e.args[1], en, st))  b == NFloor(Eval(e.args[2], en, st))  s == NFloor(Eval(e.args[3], en, st))
             n == IF b <= a THEN 0 ELSE ((b - a - 1) \div s) + 1 IN
         [el |-> [i \in 1..n |-> [c |-> <<(a + (i - 1) * s) * SCALE>>, p |-> ChildRef(z, <<(a + (i - 1) * s) * SCALE>>)]],
          df |-> ViewDefault(z)]
    [] IsCallTo(e, "enumerate") ->
         LET x == Iter(e.args[1], en, st) IN
         [el |-> [i \in 1..Len(x.el) |-> [c |-> <<(i - 1) * SCALE>>, p |-> Tup(<<CoordVal(x.el[i].c), x.el[i].p>>)]], df |-> None]
Items(e, en, st) == LET x == Iter(e, en, st) IN [i \in 1..Len(x.el) |-> Tup(<<CoordVal(x.el[i].c), x.el[i].p>>)]

(* destructuring; a default (lf / num 0) destructures leniently (assumption A5) *)
RECURSIVE Destr(_, _, _)
Destr(pat, val, en) ==
  IF pat.p = "name" THEN Bind(en, pat.id, val)
  ELSE LET F[i \in 0..Len(pat.elts)] ==
             IF i = 0 THEN en
             ELSE Destr(pat.elts[i], IF val.k = "tup" THEN val.v[i] ELSE val, F[i - 1])
       IN F[Len(pat.elts)]
RECURSIVE DestrOK(_, _)
DestrOK(pat, val) ==
  IF pat.p = "name" THEN TRUE
  ELSE IF val.k = "dflt" THEN TRUE
  ELSE IF val.k = "tup" THEN Len(val.v) = Len(pat.elts) /\ \A i \in 1..Len(pat.elts) : DestrOK(pat.elts[i], val.v[i])
  ELSE FALSE
(* refs inside a bound item get their leaf created (explicit zero) *)
RECURSIVE RefsIn(_)
RefsIn(v) == IF v.k = "ref" THEN {v} ELSE IF v.k = "tup" THEN UNION {RefsIn(v.v[i]) : i \in 1..Len(v.v)} ELSE {}
Touch(st, rs) == [s \in 1..Len(st) |->
   LET mine == {r.path : r \in {x \in rs : x.sid = s}} \ DOMAIN st[s].m IN
   IF mine = {} THEN st[s] ELSE [st[s] EXCEPT !.m = [p \in DOMAIN st[s].m \cup mine |-> IF p \in DOMAIN st[s].m THEN st[s].m[p] ELSE 0]]]
=============================================================================
