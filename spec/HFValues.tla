------------------------------ MODULE HFValues ------------------------------
(* Value domain of the HiFiber abstract machine: exact rationals, tagged values, coordinates.    *)
(* A coordinate is a sequence of integers scaled by SCALE (so halves, thirds and quarters are exact); a     *)
(* scalar coordinate is <<c>>, a flattened ("tuple") coordinate is <<c1, .., cn>>.                 *)
EXTENDS Integers, Sequences, FiniteSets, TLC, SequencesExt, FiniteSetsExt
SCALE == 12
(* helpers *)
SeqSet(s) == {s[i] : i \in 1..Len(s)}
Bind(f, x, v) == [y \in DOMAIN f \cup {x} |-> IF y = x THEN v ELSE f[y]]
RECURSIVE SumOver(_, _)
SumOver(S, f) == IF S = {} THEN 0 ELSE LET x == CHOOSE y \in S : TRUE IN f[x] + SumOver(S \ {x}, f)
RECURSIVE Gcd(_, _)
Gcd(a, b) == IF b = 0 THEN a ELSE Gcd(b, a % b)
Abs(x) == IF x < 0 THEN -x ELSE x
(* numbers: exact rationals *)
Num(n, d) == LET s == IF d < 0 THEN -1 ELSE 1  g == Gcd(Abs(n), Abs(d)) IN
             [k |-> "num", n |-> (s * n) \div g, d |-> (s * d) \div g]
NumI(i) == [k |-> "num", n |-> i, d |-> 1]
NAdd(a, b) == Num(a.n * b.d + b.n * a.d, a.d * b.d)
NSub(a, b) == Num(a.n * b.d - b.n * a.d, a.d * b.d)
NMul(a, b) == Num(a.n * b.n, a.d * b.d)
NDiv(a, b) == Num(a.n * b.d, a.d * b.n)
NFloor(a) == a.n \div a.d
NLt(a, b) == a.n * b.d < b.n * a.d
NLe(a, b) == a.n * b.d <= b.n * a.d
NMod(a, b) == NSub(a, NMul(NumI(NFloor(NDiv(a, b))), b))
Primes == <<2, 3, 5, 7, 11, 13, 17, 19, 23, 29, 31, 37, 41, 43, 47, 53, 59, 61, 67, 71, 73, 79, 83, 89, 97, 101, 103, 107, 109, 113, 127, 131, 137, 139, 149, 151, 157, 163, 167, 173, 179, 181, 191, 193, 197, 199, 211, 223, 227, 229>>
Tup(s) == [k |-> "tup", v |-> s]
Str(x) == [k |-> "str", s |-> x]
Dict(f) == [k |-> "dict", f |-> f]
Bool(b) == [k |-> "bool", b |-> b]
None == [k |-> "none"]
(* coordinates: Seq(Int), each component scaled by SCALE; scalar coordinate = <<c>> *)
CLess(a, b) == \E i \in 1..Len(a) : i <= Len(b) /\ a[i] < b[i] /\ \A j \in 1..(i - 1) : a[j] = b[j]
SortC(S) == SetToSortSeq(S, CLess)
CoordVal(c) == IF Len(c) = 1 THEN Num(c[1], SCALE) ELSE Tup([i \in 1..Len(c) |-> Num(c[i], SCALE)])
IsIntegralScaled(v) == (v.n * SCALE) % v.d = 0
ScaledOf(v) == (v.n * SCALE) \div v.d
ValCoord(v) == IF v.k = "num" THEN <<ScaledOf(v)>> ELSE [i \in 1..Len(v.v) |-> ScaledOf(v.v[i])]
(* keyword argument of a call expression of HF-IR, or the marker [e |-> "absent"] *)
Kw(call, name) == LET S == {i \in 1..Len(call.kw) : call.kw[i].k = name} IN
                  IF S = {} THEN [e |-> "absent"] ELSE call.kw[CHOOSE i \in S : TRUE].v
=============================================================================
