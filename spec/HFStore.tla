------------------------------ MODULE HFStore -------------------------------
(* Tensor storage algebra of the reference HiFiber model (DESIGN 3.2, assumptions A1-A8).        *)
(* A storage is [d |-> depth, m |-> [paths -> Int]]; a path is a Seq(Coord) of length d.          *)
(* A fiber is a view (storage id, prefix); a payload reference is (storage id, full path).        *)
EXTENDS HFValues
(* storages: [d |-> depth, m |-> [paths -> Int]]; paths are Seq(Coord) of length d *)
IsPre(pre, p) == Len(pre) <= Len(p) /\ SubSeq(p, 1, Len(pre)) = pre
NZ(m) == {q \in DOMAIN m : m[q] # 0}
CoordsAt(m, pre) == {p[Len(pre) + 1] : p \in {q \in NZ(m) : IsPre(pre, q) /\ Len(q) > Len(pre)}}
View(sid, pre, d) == [k |-> "view", sid |-> sid, pre |-> pre, d |-> d]
Ref(sid, path) == [k |-> "ref", sid |-> sid, path |-> path]
RECURSIVE EmptyOf(_)
EmptyOf(rem) == [k |-> "dflt"]
LeafVal(st, sid, path) == LET m == st[sid].m IN IF path \in DOMAIN m THEN m[path] ELSE 0
Child(st, v, c) == IF Len(v.pre) + 1 = v.d THEN NumI(LeafVal(st, v.sid, Append(v.pre, c)))
                   ELSE View(v.sid, Append(v.pre, c), v.d)
ChildRef(v, c) == IF Len(v.pre) + 1 = v.d THEN Ref(v.sid, Append(v.pre, c)) ELSE View(v.sid, Append(v.pre, c), v.d)
ViewElems(st, v) == LET cs == SortC(CoordsAt(st[v.sid].m, v.pre)) IN
                    [i \in 1..Len(cs) |-> [c |-> cs[i], p |-> Child(st, v, cs[i])]]
ViewDefault(v) == EmptyOf(v.d - Len(v.pre) - 1)
(* relative map of a tensor object *)
Rel(st, o) == LET m == st[o.sid].m  n == Len(o.pre) IN
  [q \in {SubSeq(p, n + 1, Len(p)) : p \in {x \in NZ(m) : IsPre(o.pre, x)}} |-> m[o.pre \o q]]
Ins(p, d, c) == SubSeq(p, 1, d) \o <<c>> \o SubSeq(p, d + 1, Len(p))
Drop(p, d, l) == SubSeq(p, 1, d) \o SubSeq(p, d + l + 1, Len(p))
(* uniform split with halos; step, pre, post are scaled ints; coordinate components scaled *)
UniParts(c, step, pre, post, mains, parent, haloOnly) ==
  LET lo == ((c - post) \div step) - 1  hi == (c + pre) \div step IN
  {g \in {k * step : k \in (IF lo < 0 THEN 0 ELSE lo)..hi} :
       /\ g - pre <= c /\ c < g + step + post
       /\ (haloOnly \/ <<parent, g>> \in mains)}
SplitUniform(m, d, step, pre, post, haloOnly) ==
  LET mains == {<<SubSeq(p, 1, d), (p[d + 1][1] \div step) * step>> : p \in DOMAIN m}
      new == UNION {{Ins(p, d, <<g>>) : g \in UniParts(p[d + 1][1], step, pre, post, mains, SubSeq(p, 1, d), haloOnly)} : p \in DOMAIN m}
  IN [q \in new |-> m[Drop(q, d, 1)]]
SplitEqual(m, d, n) ==
  LET grp(p) == LET cs == SortC({q[d + 1] : q \in {x \in DOMAIN m : SubSeq(x, 1, d) = SubSeq(p, 1, d)}})
                    i == CHOOSE j \in 1..Len(cs) : cs[j] = p[d + 1] IN cs[((i - 1) \div n) * n + 1]
  IN [q \in {Ins(p, d, grp(p)) : p \in DOMAIN m} |-> m[Drop(q, d, 1)]]
SplitNonUniform(m, d, bs, dropBelow) ==
  LET le(c) == {b \in bs : ~CLess(c, b)}
      grp(c) == IF le(c) = {} THEN (CHOOSE b \in bs : \A b2 \in bs : ~CLess(b2, b))
                ELSE CHOOSE b \in le(c) : \A b2 \in le(c) : ~CLess(b, b2)
      keep == {p \in DOMAIN m : ~(dropBelow /\ le(p[d + 1]) = {})}
  IN IF bs = {} THEN <<>> ELSE [q \in {Ins(p, d, grp(p[d + 1])) : p \in keep} |-> m[Drop(q, d, 1)]]
Swizzle(m, pm) == LET img(p) == [i \in 1..Len(pm) |-> p[pm[i]]] IN
  [q \in {img(p) : p \in DOMAIN m} |-> m[CHOOSE p \in DOMAIN m : img(p) = q]]
MergeAbs(m, d, l) == [q \in {Drop(p, d, l) : p \in DOMAIN m} |-> SumOver({p \in DOMAIN m : Drop(p, d, l) = q}, m)]
RECURSIVE ConcatAll(_)
ConcatAll(s) == IF s = <<>> THEN <<>> ELSE Head(s) \o ConcatAll(Tail(s))
Flatten(m, d, l) == LET img(p) == SubSeq(p, 1, d) \o <<ConcatAll(SubSeq(p, d + 1, d + l + 1))>> \o SubSeq(p, d + l + 2, Len(p)) IN
  [q \in {img(p) : p \in DOMAIN m} |-> m[CHOOSE p \in DOMAIN m : img(p) = q]]
Unflatten(m, d, l) == LET img(p) == SubSeq(p, 1, d) \o [i \in 1..(l + 1) |-> <<p[d + 1][i]>>] \o SubSeq(p, d + 2, Len(p)) IN
  [q \in {img(p) : p \in DOMAIN m} |-> m[CHOOSE p \in DOMAIN m : img(p) = q]]
=============================================================================
