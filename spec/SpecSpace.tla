------------------------------ MODULE SpecSpace ------------------------------
(* The space of specifications (DESIGN view S).  One behaviour builds one specification in      *)
(* stages: index variables -> output index list -> terms (factors with *ordered* index lists,   *)
(* optionally affine index expressions, scalars, a leading take) -> per-rank partitioning       *)
(* stacks -> rank orders -> loop order.  TLC enumerates the space (BFS for the small bounds,     *)
(* -simulate for the larger ones); every terminal state is printed as JSON and rendered to YAML  *)
(* by the harness.  The rules the properties refer to are operators of this module:              *)
(*   DefaultLoopOrder  (C19)  output ranks as written, then the remaining ranks in order of     *)
(*                            first appearance, each partitioned rank replaced in place by its  *)
(*                            levels outermost -> innermost;                                     *)
(*   DeclaredRankOrder (C19)  the declared order of each tensor;                                 *)
(*   Levels(r)                names of the partition levels of a rank.                          *)
EXTENDS Naturals, Sequences, FiniteSets, TLC, Json, SequencesExt
CONSTANTS MaxVars, MaxTerms, MaxFacs, AllowAffine, AllowTake, AllowPart, MaxStack, AllowFlat
VarNames == <<"m", "n", "k", "j">>
RankNames == <<"M", "N", "K", "J">>
TNames == <<"A", "B", "C", "D", "E", "F", "G", "H", "I">>
VARIABLES stage, nv, out, terms, cur, stacks, ro, lo
vars == <<stage, nv, out, terms, cur, stacks, ro, lo>>
SeqSet(s) == {s[i] : i \in 1..Len(s)}
\* ordered lists of distinct elements of S with at most two entries
Seqs2(S) == {<<>>} \cup {<<i>> : i \in S} \cup {p \in S \X S : p[1] # p[2]}
\* an index position is a sequence of affine terms [c, v]; a plain index is <<[c |-> 1, v |-> x]>>
Plain(x) == <<[c |-> 1, v |-> x]>>
IdxVars(ix) == UNION {{ix[p][q].v : q \in 1..Len(ix[p])} : p \in 1..Len(ix)}
FacVars(f) == IF f.k = "t" THEN IdxVars(f.idx) ELSE {}
Covered(facs) == UNION {FacVars(facs[i]) : i \in 1..Len(facs)}
RECURSIVE CountT(_)
CountT(ts) == IF ts = <<>> THEN 0 ELSE Cardinality({i \in 1..Len(Head(ts).facs) : Head(ts).facs[i].k = "t"}) + CountT(Tail(ts))
NTensors == CountT(terms) + Cardinality({i \in 1..Len(cur) : cur[i].k = "t"})
Init == stage = "vars" /\ nv = 0 /\ out = <<>> /\ terms = <<>> /\ cur = <<>> /\ stacks = <<>> /\ ro = <<>> /\ lo = <<>>
ChooseVars == /\ stage = "vars" /\ \E n \in 1..MaxVars : nv' = n
              /\ stage' = "out" /\ UNCHANGED <<out, terms, cur, stacks, ro, lo>>
ChooseOut == /\ stage = "out" /\ \E o \in Seqs2(1..nv) : out' = o
             /\ stage' = "term" /\ UNCHANGED <<nv, terms, cur, stacks, ro, lo>>
AddTensorFactor == /\ stage = "term" /\ Len(cur) < MaxFacs /\ NTensors < Len(TNames)
                   /\ \E s \in Seqs2(1..nv) : cur' = Append(cur, [k |-> "t", idx |-> [p \in 1..Len(s) |-> Plain(s[p])]])
                   /\ UNCHANGED <<stage, nv, out, terms, stacks, ro, lo>>
\* an access with one affine position  c1*x + c2*y  (x # y), written in this order
AddAffineFactor == /\ AllowAffine /\ stage = "term" /\ Len(cur) < MaxFacs /\ NTensors < Len(TNames) /\ nv >= 2
                   /\ \A t \in 1..Len(terms) : \A i \in 1..Len(terms[t].facs) : terms[t].facs[i].k = "v" \/ \A p \in 1..Len(terms[t].facs[i].idx) : Len(terms[t].facs[i].idx[p]) = 1
                   /\ \A i \in 1..Len(cur) : cur[i].k = "v" \/ \A p \in 1..Len(cur[i].idx) : Len(cur[i].idx[p]) = 1
                   /\ \E x, y \in 1..nv : \E c1, c2 \in {1, 2} :
                        /\ x # y /\ x \notin SeqSet(out) /\ y \notin SeqSet(out)
                        /\ cur' = Append(cur, [k |-> "t", idx |-> << <<[c |-> c1, v |-> x], [c |-> c2, v |-> y]>> >>])
                   /\ UNCHANGED <<stage, nv, out, terms, stacks, ro, lo>>
AddScalarFactor == /\ stage = "term" /\ Len(cur) < MaxFacs /\ cur # <<>> /\ \A i \in 1..Len(cur) : cur[i].k = "t"
                   /\ cur' = Append(cur, [k |-> "v", idx |-> <<>>])
                   /\ UNCHANGED <<stage, nv, out, terms, stacks, ro, lo>>
\* every term ranges over all the variables (a stated legality rule)
CloseTerm == /\ stage = "term" /\ cur # <<>> /\ Covered(cur) = 1..nv
             \* take: scalar operands allowed (they are non-zero in the input space); rank-0 tensor operands are outside the input space
             /\ \E kind \in (IF AllowTake /\ Len(cur) >= 2 /\ \A i \in 1..Len(cur) : cur[i].k = "v" \/ cur[i].idx # <<>> THEN {"times", "take"} ELSE {"times"}) :
                  \E sel \in (IF kind = "take" THEN 1..Len(cur) ELSE {0}) :
                     terms' = Append(terms, [kind |-> kind, sel |-> sel, facs |-> cur])
             /\ cur' = <<>>
             /\ stage' = IF Len(terms) + 1 = MaxTerms THEN "part" ELSE "more"
             /\ UNCHANGED <<nv, out, stacks, ro, lo>>
MoreOrNot == /\ stage = "more" /\ stage' \in {"term", "part"} /\ UNCHANGED <<nv, out, terms, cur, stacks, ro, lo>>
-----------------------------------------------------------------------------
RECURSIVE CatFacs(_)
CatFacs(ts) == IF ts = <<>> THEN <<>> ELSE Head(ts).facs \o CatFacs(Tail(ts))
AllFacs == CatFacs(terms)
TensorFacs == SelectSeq(AllFacs, LAMBDA f : f.k = "t")
IsAffine == \E i \in 1..Len(TensorFacs) : \E p \in 1..Len(TensorFacs[i].idx) : Len(TensorFacs[i].idx[p]) > 1
IsProduct == Len(terms) = 1 /\ terms[1].kind = "times"
Holders(x) == {i \in 1..Len(TensorFacs) : x \in IdxVars(TensorFacs[i].idx)}
\* partitioning directives: uniform_shape(s), nway_shape(n), uniform_occupancy(leader.s)
Directives(x) == {[k |-> "uniform_shape", sz |-> s] : s \in {2, 3}} \cup {[k |-> "nway_shape", sz |-> 2]}
                 \cup (IF IsProduct /\ ~IsAffine THEN {[k |-> "uniform_occupancy", sz |-> s, leader |-> h] : s \in {1, 2}, h \in Holders(x)} ELSE {})
\* stated rule: no n-way split after an occupancy split; occupancy levels stay at the bottom of the stack
LegalNext(st, d) == \A i \in 1..Len(st) : st[i].k = "uniform_occupancy" => d.k = "uniform_occupancy"
IsFlat(x) == stacks[x] # <<>> /\ stacks[x][1].k = "flatten"
FlatVars == {x \in 1..nv : IsFlat(x)}
StartPart == /\ stage = "part" /\ stacks = <<>> /\ stacks' = [x \in 1..nv |-> <<>>]
             /\ UNCHANGED <<stage, nv, out, terms, cur, ro, lo>>
AddDirective == /\ stage = "part" /\ stacks # <<>> /\ AllowPart /\ ~IsAffine
                /\ \E x \in 1..nv : \E d \in Directives(x) :
                      /\ ~IsFlat(x) /\ (\A z \in FlatVars : stacks[z][1].sz # x)
                      /\ Len(stacks[x]) < MaxStack /\ LegalNext(stacks[x], d)
                      /\ stacks' = [stacks EXCEPT ![x] = Append(@, d)]
                /\ UNCHANGED <<stage, nv, out, terms, cur, ro, lo>>
\* flattening of two unpartitioned ranks that some tensor holds together, written (x, y): recorded as the one-entry stack of x
\* ([k |-> "flatten", sz |-> y]); at most one flattening per specification
AddFlatten == /\ stage = "part" /\ stacks # <<>> /\ AllowFlat /\ ~IsAffine /\ FlatVars = {}
              /\ \E x, y \in 1..nv : /\ x # y /\ stacks[x] = <<>> /\ stacks[y] = <<>> /\ Holders(x) \cap Holders(y) # {}
                                     /\ stacks' = [stacks EXCEPT ![x] = <<[k |-> "flatten", sz |-> y]>>]
              /\ UNCHANGED <<stage, nv, out, terms, cur, ro, lo>>
FinishPart == stage = "part" /\ stacks # <<>> /\ stage' = "ro" /\ UNCHANGED <<nv, out, terms, cur, stacks, ro, lo>>
\* rank order per tensor: omitted (<<>>) or the reversal of a 2-rank declaration
TensorRanks(f) == [p \in 1..Len(f.idx) |-> IF Len(f.idx[p]) = 1 THEN f.idx[p][1].v ELSE 0]
ChooseRankOrders == /\ stage = "ro"
                    /\ IF Len(ro) = Len(TensorFacs) THEN stage' = "lo" /\ UNCHANGED ro
                       ELSE /\ LET t == TensorRanks(TensorFacs[Len(ro) + 1]) IN
                               ro' \in {Append(ro, <<>>)} \cup (IF Len(t) = 2 THEN {Append(ro, <<2, 1>>)} ELSE {})
                            /\ UNCHANGED stage
                    /\ UNCHANGED <<nv, out, terms, cur, stacks, lo>>
Levels(x) == IF stacks[x] = <<>> THEN <<RankNames[x]>> ELSE [i \in 1..(Len(stacks[x]) + 1) |-> RankNames[x] \o ToString(Len(stacks[x]) + 1 - i)]
RECURSIVE Expand(_)
Expand(xs) == IF xs = <<>> THEN <<>> ELSE Levels(Head(xs)) \o Expand(Tail(xs))
\* order of first appearance: output index list, then terms left to right, factors left to right, index positions and
\* affine terms left to right
RECURSIVE AppendNew(_, _), IdxSeq(_), FacSeq(_)
AppendNew(s, xs) == IF xs = <<>> THEN s ELSE AppendNew(IF Head(xs) \in SeqSet(s) THEN s ELSE Append(s, Head(xs)), Tail(xs))
IdxSeq(ix) == IF ix = <<>> THEN <<>> ELSE [q \in 1..Len(Head(ix)) |-> Head(ix)[q].v] \o IdxSeq(Tail(ix))
FacSeq(fs) == IF fs = <<>> THEN <<>> ELSE (IF Head(fs).k = "t" THEN IdxSeq(Head(fs).idx) ELSE <<>>) \o FacSeq(Tail(fs))
FirstAppearance == AppendNew(out, FacSeq(AllFacs))
\* a flattened pair (x, y) is replaced in place by the flattened rank when y immediately follows x in the list; otherwise both
\* are removed and the flattened rank goes innermost (reading of Partitioning.partition_ranks, see DESIGN 11.3)
PosOf(s, v) == CHOOSE i \in 1..Len(s) : s[i] = v
ExpandF(s) ==
  IF FlatVars = {} THEN Expand(s)
  ELSE LET x == CHOOSE z \in FlatVars : TRUE  y == stacks[x][1].sz  px == PosOf(s, x)  py == PosOf(s, y)
           name == RankNames[x] \o RankNames[y] IN
       IF py = px + 1 THEN Expand(SubSeq(s, 1, px - 1)) \o <<name>> \o Expand(SubSeq(s, py + 1, Len(s)))
       ELSE Expand(SelectSeq(s, LAMBDA v : v # x /\ v # y)) \o <<name>>
DefaultLoopOrder == ExpandF(FirstAppearance)
AllLevels == UNION {SeqSet(Levels(x)) : x \in 1..nv}
\* loop order: omitted, or the default written out, or any interleaving that keeps each rank's levels outermost-to-innermost
ChooseLoop == /\ stage = "lo"
              /\ \/ lo' = <<"omitted">>
                 \/ lo' = DefaultLoopOrder
                 \/ (FlatVars = {} /\ \E p \in Permutations(1..nv) : lo' = Expand([i \in 1..nv |-> p[i]]))
              /\ stage' = "done" /\ UNCHANGED <<nv, out, terms, cur, stacks, ro>>
Finish == stage = "done" /\ stage' = "emitted" /\ UNCHANGED <<nv, out, terms, cur, stacks, ro, lo>>
Next == Finish \/ ChooseVars \/ ChooseOut \/ AddTensorFactor \/ AddAffineFactor \/ AddScalarFactor \/ CloseTerm \/ MoreOrNot
        \/ StartPart \/ AddDirective \/ AddFlatten \/ FinishPart \/ ChooseRankOrders \/ ChooseLoop
Spec == Init /\ [][Next]_vars
-----------------------------------------------------------------------------
Names(s) == [i \in 1..Len(s) |-> VarNames[s[i]]]
RenderIdx(ix) == [p \in 1..Len(ix) |-> [q \in 1..Len(ix[p]) |-> [c |-> ix[p][q].c, v |-> VarNames[ix[p][q].v]]]]
RenderStack(st) == [i \in 1..Len(st) |-> IF st[i].k = "flatten" THEN [k |-> st[i].k, sz |-> st[i].sz, leader |-> 0] ELSE IF st[i].k = "uniform_occupancy" THEN [k |-> st[i].k, sz |-> st[i].sz, leader |-> st[i].leader] ELSE [k |-> st[i].k, sz |-> st[i].sz, leader |-> 0]]
Emit == stage = "emitted" =>
  PrintT("SPEC|" \o ToJson([nv |-> nv, out |-> Names(out),
     terms |-> [t \in 1..Len(terms) |-> [kind |-> terms[t].kind, sel |-> terms[t].sel,
                  facs |-> [i \in 1..Len(terms[t].facs) |-> [k |-> terms[t].facs[i].k, idx |-> RenderIdx(terms[t].facs[i].idx)]]]],
     stacks |-> [x \in 1..nv |-> RenderStack(stacks[x])],
     ro |-> ro, lo |-> lo, dflt |-> DefaultLoopOrder, first |-> Names(FirstAppearance)]))
=============================================================================
