----------------------------- MODULE Independence ----------------------------
(* C05 (ii): the code emitted for the i-th Einsum is a function of the declaration, the mapping *)
(* and that Einsum only.  For every Einsum i of a cascade and every start j <= i the harness     *)
(* compiles E_j..E_i and records the digest of the last Einsum's statements with temporaries     *)
(* renumbered by first appearance; variant 1 is E_i compiled alone (j = i).                      *)
EXTENDS Naturals, Sequences, TLC, Json, IOUtils
Recs == JsonDeserialize(IOEnv.INDEPENDENCE_BATCH).recs
VARIABLE r
Init == r \in 1..Len(Recs)
Next == UNCHANGED r
Spec == Init /\ [][Next]_r
R == Recs[r]
Differs == {i \in 2..Len(R.variants) : R.variants[i].out # R.variants[1].out}
Verdict == Differs # {} => PrintT("INDEP|" \o ToString(r) \o "|" \o R.variants[CHOOSE i \in Differs : TRUE].what)
=============================================================================
