------------------------------- MODULE Scope -------------------------------
(* All-paths definite-assignment machine over HF-IR (property C06, DESIGN 3.5).  Data is        *)
(* abstracted to the set of bound names; a loop runs zero times or once (binding is monotone,   *)
(* so further iterations add no path); an `if` takes either branch.  On leaving a loop its      *)
(* target names become dead until rebound.  TLC enumerates every path of every program.         *)
EXTENDS MetricsProtocol, Json, IOUtils
Progs == JsonDeserialize(IOEnv.SCOPE_BATCH).progs
Api == {"Tensor", "Fiber", "Metrics", "Traffic", "Format", "Compute", "createCanvas", "displayCanvas",
        "LeaderFollowerIntersector", "SkipAheadIntersector", "TwoFingerIntersector",
        "enumerate", "len", "int", "min", "max", "set", "float"}
RECURSIVE Reads(_)      \* names read by an expression (lambda parameters excluded inside their lambda)
Reads(e) ==
  CASE e.e = "name" -> {e.id}
    [] e.e \in {"num", "str", "bool", "none", "absent"} -> {}
    [] e.e \in {"tuple", "list"} -> UNION {Reads(e.elts[i]) : i \in 1..Len(e.elts)}
    [] e.e = "dict" -> UNION ({Reads(e.keys[i]) : i \in 1..Len(e.keys)} \cup {Reads(e.vals[i]) : i \in 1..Len(e.vals)})
    [] e.e \in {"bin", "cmp"} -> Reads(e.l) \cup Reads(e.r)
    [] e.e = "neg" -> Reads(e.x)
    [] e.e = "attr" -> Reads(e.obj)
    [] e.e = "index" -> Reads(e.obj) \cup Reads(e.key)
    [] e.e = "call" -> Reads(e.fn) \cup UNION ({Reads(e.args[i]) : i \in 1..Len(e.args)} \cup {Reads(e.kw[i].v) : i \in 1..Len(e.kw)})
    [] e.e = "lambda" -> Reads(e.body) \ SeqSet(e.params)
RECURSIVE Binds(_)
Binds(p) == IF p.p = "name" THEN {p.id} ELSE UNION {Binds(p.elts[i]) : i \in 1..Len(p.elts)}
VARIABLES pid, pc, defined, dead, depth, skipped, mp
vars == <<pid, pc, defined, dead, depth, skipped, mp>>
Code == Progs[pid].code
I == Code[pc]
Init == /\ pid \in 1..Len(Progs) /\ pc = 1 /\ dead = {} /\ depth = 0 /\ skipped = FALSE /\ mp = MpInit
        /\ defined = SeqSet(Progs[pid].user) \cup Api
Goto(n) == pc' = n /\ UNCHANGED <<pid, defined, dead, depth, skipped>>
ReadsOf(i) == CASE i.op = "assign" -> Reads(i.e)
                [] i.op = "setitem" -> Reads(i.obj) \cup Reads(i.key) \cup Reads(i.e)
                [] i.op = "aug" -> Reads(i.dst) \cup Reads(i.e)
                [] i.op = "expr" -> Reads(i.e)
                [] i.op = "for" -> Reads(i.it)
                [] i.op = "if" -> Reads(i.c)
                [] OTHER -> {}
Unbound == ReadsOf(I) \ defined
Scoped == ReadsOf(I) \cap dead
Assign == /\ I.op = "assign"
          /\ defined' = defined \cup {I.dst} /\ dead' = dead \ {I.dst} /\ pc' = pc + 1 /\ UNCHANGED <<pid, depth, skipped>>
Plain == I.op \in {"setitem", "aug", "expr"} /\ Goto(pc + 1)
ForSkip == I.op = "for" /\ pc' = I.end + 1 /\ skipped' = TRUE /\ UNCHANGED <<pid, defined, dead, depth>>                             \* zero iterations: nothing is bound
ForEnter == /\ I.op = "for"
            /\ defined' = defined \cup Binds(I.tgt) /\ dead' = dead \ Binds(I.tgt)
            /\ pc' = pc + 1 /\ depth' = depth + 1 /\ UNCHANGED <<pid, skipped>>
EndFor == /\ I.op = "endfor"
          /\ dead' = dead \cup Binds(Code[I.start - 1].tgt)              \* loop variables die with the loop
          /\ pc' = pc + 1 /\ depth' = depth - 1 /\ UNCHANGED <<pid, defined, skipped>>
IfThen == I.op = "if" /\ Goto(pc + 1)
IfElse == I.op = "if" /\ Goto(I.else)
Jump == I.op = "jump" /\ Goto(I.to)
\* a read of an unbound name is reported (Verdict) and the path then continues as if the name had been supplied, so that one
\* unbound name does not hide later ones on the same path
Recover == /\ Unbound # {} /\ defined' = defined \cup Unbound /\ UNCHANGED <<pid, pc, dead, depth, skipped, mp>>
Step == \/ Recover
        \/ /\ Unbound = {} /\ (Assign \/ Plain \/ ForSkip \/ ForEnter \/ EndFor \/ IfThen \/ IfElse \/ Jump)
           \* C12 on all paths: the protocol monitor, strict about feeding on the path that entered every loop
           /\ mp' = IF Progs[pid].protocol THEN MpStep(mp, I, depth > 0, ~skipped) ELSE mp
Spec == Init /\ [][Step]_vars
ReadsBound == Unbound = {}
LoopVarsScoped == Scoped = {}
\* batch verdict: one line per offending state, the invariant itself never fails
Verdict == /\ (Unbound # {} => PrintT("SCOPE|" \o ToString(pid) \o "|unbound|" \o (CHOOSE x \in Unbound : TRUE) \o "|" \o ToString(pc)))
           /\ (mp.bad # "" => PrintT("SCOPE|" \o ToString(pid) \o "|protocol|" \o mp.bad \o "|" \o ToString(pc)))
           /\ ((Unbound = {} /\ Scoped # {}) => PrintT("SCOPE|" \o ToString(pid) \o "|loopvar|" \o (CHOOSE x \in Scoped : TRUE) \o "|" \o ToString(pc)))
=============================================================================
