----------------------------- MODULE FusionTrace -----------------------------
(* Trace validation of real Fusion.add_einsum runs against Fusion.tla (C13).  Every event logs *)
(* the descriptor fed (read from the generating structure, not from the compiler) and          *)
(* get_blocks() afterwards, so nothing is left for TLC to choose: one state per event.  A      *)
(* "final" trace carries only the blocks literal of a whole compilation and is judged by the   *)
(* invariants alone.                                                                           *)
EXTENDS Naturals, Sequences, FiniteSets, TLC, Json, IOUtils
Traces == JsonDeserialize(IOEnv.FUSION_TRACES).traces
VARIABLES hist, blocks, l, tid
INSTANCE Fusion WITH Configs <- {}, Loops <- {}, Spaces <- {}, Comps <- {}, MaxLen <- 0
Tr == Traces[tid].events
Ev == Tr[l]
Desc0(ev) == [cfg |-> ev.cfg, loop |-> ev.loop, space |-> ev.space, comps |-> {ev.comps[i] : i \in 1..Len(ev.comps)}]
Allowed == \/ Ev.blocks = Append(blocks, <<Len(hist) + 1>>)
           \/ (CanExtend(Desc0(Ev)) /\ Ev.blocks = [blocks EXCEPT ![Len(blocks)] = Append(@, Len(hist) + 1)])
TInit == tid \in 1..Len(Traces) /\ l = 1 /\ hist = <<>> /\ blocks = <<>>
StepEv == /\ Traces[tid].kind = "steps" /\ l <= Len(Tr) /\ Allowed
          /\ hist' = Append(hist, Desc0(Ev)) /\ blocks' = Ev.blocks /\ l' = l + 1 /\ UNCHANGED tid
FinalEv == /\ Traces[tid].kind = "final" /\ l = 1
           /\ hist' = [i \in 1..Len(Tr) |-> Desc0(Tr[i])] /\ blocks' = Traces[tid].blocks /\ l' = Len(Tr) + 1 /\ UNCHANGED tid
TSpec == TInit /\ [][StepEv \/ FinalEv]_<<hist, blocks, l, tid>>
Why == IF Ev.blocks # Append(blocks, <<Len(hist) + 1>>) /\ Ev.blocks # [blocks EXCEPT ![Len(blocks)] = Append(@, Len(hist) + 1)]
       THEN "blocks changed other than by appending the new Einsum"
       ELSE LET o == CHOOSE k \in 1..Len(Last(blocks)) : ~Compatible(hist[Last(blocks)[k]], Desc0(Ev))
                x == hist[Last(blocks)[o]] IN
            IF x.cfg # Ev.cfg THEN "fused across hardware configurations"
            ELSE IF x.comps \cap Desc0(Ev).comps # {} THEN "fused although a functional component is bound in both Einsums"
            ELSE "fused although the temporal prefixes differ"
Verdict == /\ ((Traces[tid].kind = "steps" /\ l <= Len(Tr) /\ ~Allowed) => PrintT("FUSION|" \o ToString(tid) \o "|" \o ToString(l) \o "|" \o Why))
           /\ (~OrderedPartition => PrintT("FUSION|" \o ToString(tid) \o "|" \o ToString(l) \o "|blocks are not an ordered contiguous partition of the Einsums"))
           /\ ((OrderedPartition /\ ~BlockLegal) => PrintT("FUSION|" \o ToString(tid) \o "|" \o ToString(l) \o "|a block holds incompatible Einsums"))
Accepted == (l > Len(Tr)) => PrintT("FUSIONOK|" \o ToString(tid))
=============================================================================
