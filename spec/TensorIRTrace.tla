--------------------------- MODULE TensorIRTrace ---------------------------
(* The shared-tensor protocol of the translator (C05 state clause, C07 name discipline),       *)
(* checked by trace validation.  HiFiber.__translate drives one dictionary of mutable Tensor    *)
(* objects [ranks, init, rank_ptr, iter_ptr, is_output, is_flat] through                        *)
(*   PreBegin -> Begin -> (one event per translated flow node)* -> Reset      per Einsum.       *)
(* The env-guarded hook logs the full tensor state after every event, so every variable is      *)
(* bound by the log and validation is linear: one TLC state per event.  Each event kind is one  *)
(* action with its enabling condition (what the step may change -- its frame -- and how);       *)
(* a trace is rejected at the first event no action explains, and the clause is named.          *)
EXTENDS Naturals, Sequences, FiniteSets, TLC, Json, IOUtils, SequencesExt
Traces == JsonDeserialize(IOEnv.TENSORIR_TRACES).traces
VARIABLES tid, l, T, tmp
vars == <<tid, l, T, tmp>>
Trace == Traces[tid].events
SeqSet(s) == {s[i] : i \in 1..Len(s)}
Names == DOMAIN Trace[1].tensors
Initial(t) == t.ranks = t.init /\ t.rank_ptr = 0 /\ t.iter_ptr = 0 /\ ~t.is_output /\ ~t.is_flat
Active(t) == SubSeq(t.ranks, t.rank_ptr + 1, Len(t.ranks))
Concat(ids) == FoldLeft(LAMBDA a, b : a \o b, "", ids)
\* the naming rule of Tensor.tensor_name()
Name(n, t) == n \o "_" \o Concat(Active(t)) \o (IF t.is_flat /\ ~t.is_output THEN "_flat" ELSE "")
SamePtrs(a, b) == a.rank_ptr = b.rank_ptr /\ a.iter_ptr = b.iter_ptr
IsPermOf(a, b) == Len(a) = Len(b) /\ SeqSet(a) = SeqSet(b)
Ev == Trace[l]
Post == Ev.tensors
Frame(S) == \A n \in Names \ S : Post[n] = T[n]
NextRank(t) == IF t.iter_ptr < Len(t.ranks) THEN t.ranks[t.iter_ptr + 1] ELSE ""
MustIterate == {n \in SeqSet(Ev.used) \cap Names : NextRank(T[n]) = Ev.node.rank}
Clause ==
  IF Ev.tmp < tmp THEN "temporary counter decreased"
  ELSE CASE Ev.ev = "PreBegin" ->
         (IF l > 1 /\ ~Frame({}) THEN "state changed between Einsums"
          ELSE IF \E n \in Names : ~Initial(Post[n]) THEN "Begin: a shared tensor is not in its initial state" ELSE "ok")
    [] Ev.ev = "Begin" ->
         (IF ~Frame({Ev.out}) THEN "Begin: a tensor other than the output changed"
          ELSE IF Post[Ev.out] # [T[Ev.out] EXCEPT !.is_output = TRUE] THEN "Begin: output not merely flagged" ELSE "ok")
    [] Ev.ev = "Reset" -> (IF \E n \in Names : ~Initial(Post[n]) THEN "Reset: a shared tensor is not back in its initial state" ELSE "ok")
    [] Ev.ev = "LoopEnter" ->
         (IF ~Frame(SeqSet(Ev.popped)) THEN "Loop: a tensor not co-iterated changed"
          ELSE IF \E n \in SeqSet(Ev.popped) : Post[n] # [T[n] EXCEPT !.iter_ptr = @ + 1] THEN "Loop: co-iterated tensor did not advance by exactly one rank"
          ELSE IF Ev.popped = <<>> THEN "Loop: nothing is iterated"
          \* prediction of the co-iteration set (generative part): exactly the tensors of this Einsum whose next rank is the loop rank
          \* are co-iterated; with index arithmetic a tensor may also be iterated through a projected rank, so only "at least"
          ELSE IF ~(MustIterate \subseteq SeqSet(Ev.popped)) THEN "Loop: a tensor whose next rank is the loop rank is not co-iterated"
          ELSE IF ~Ev.imath /\ \E n \in SeqSet(Ev.popped) : NextRank(T[n]) # Ev.node.rank THEN "Loop: a co-iterated tensor's next rank is not the loop rank"
          ELSE "ok")
    [] Ev.ev = "Node" /\ Ev.node.kind = "SwizzleNode" ->
         (LET t == Ev.node.tensor IN
          IF ~Frame({t}) THEN "Swizzle: another tensor changed"
          ELSE IF ~SamePtrs(Post[t], T[t]) \/ ~IsPermOf(Active(Post[t]), Active(T[t])) THEN "Swizzle: not a permutation of the active ranks"
          ELSE IF Ev.stmts # <<>> /\ ~(Ev.defs # <<>> /\ Ev.defs[1] = Name(t, Post[t]) /\ Name(t, T[t]) \in SeqSet(Ev.uses)) THEN "Swizzle: emitted names do not match the tensor state"
          ELSE "ok")
    [] Ev.ev = "Node" /\ Ev.node.kind = "GetRootNode" ->
         (LET t == Ev.node.tensor IN
          IF ~Frame({}) THEN "GetRoot: tensor state changed"
          ELSE IF Name(t, T[t]) \notin SeqSet(Ev.uses) THEN "GetRoot: emitted name does not match the tensor state" ELSE "ok")
    [] Ev.ev = "Node" /\ Ev.node.kind = "FromFiberNode" ->
         (LET t == Ev.node.tensor IN
          IF ~Frame({t}) THEN "FromFiber: another tensor changed"
          ELSE IF ~(Post[t].rank_ptr = T[t].iter_ptr /\ Post[t].iter_ptr = T[t].iter_ptr /\ Post[t].ranks = T[t].ranks) THEN "FromFiber: rank pointer not moved to the iteration pointer"
          ELSE IF ~(Ev.defs # <<>> /\ Ev.defs[1] = Name(t, Post[t])) THEN "FromFiber: emitted name does not match the tensor state" ELSE "ok")
    [] Ev.ev = "Node" /\ Ev.node.kind = "PartNode" ->
         (LET t == Ev.node.tensor  rs == SeqSet(Ev.node.ranks) IN
          IF ~Frame({t}) THEN "Part: another tensor changed"
          ELSE IF Post[t].iter_ptr # T[t].iter_ptr \/ Post[t].rank_ptr # T[t].iter_ptr THEN "Part: pointers"
          ELSE IF Ev.stmts # <<>> /\ (rs \cap SeqSet(Active(Post[t])) # {} \/ ~((SeqSet(SubSeq(T[t].ranks, T[t].iter_ptr + 1, Len(T[t].ranks))) \ rs) \subseteq SeqSet(Active(Post[t])))) THEN "Part: partitioned ranks not replaced in place"
          ELSE "ok")
    [] Ev.ev = "Node" /\ Ev.node.kind = "GetPayloadNode" ->
         (LET t == Ev.node.tensor IN
          IF ~Frame({t}) THEN "GetPayload: another tensor changed"
          ELSE IF Post[t] # [T[t] EXCEPT !.iter_ptr = @ + Len(Ev.node.ranks)] THEN "GetPayload: did not advance by the looked-up ranks" ELSE "ok")
    [] Ev.ev = "Node" /\ Ev.node.kind = "OtherNode" /\ Ev.node.type = "Output" ->
         (LET outs == {n \in Names : T[n].is_output} IN
          IF ~Frame(outs) THEN "Output: a non-output tensor changed"
          ELSE IF \E n \in outs : ~(Post[n].is_output /\ SamePtrs(Post[n], T[n])) THEN "Output: flags/pointers" ELSE "ok")
    [] Ev.ev = "Node" /\ Ev.node.kind = "OtherNode" /\ Ev.node.type = "Footer" ->
         (LET outs == {n \in Names : T[n].is_output} IN
          IF ~Frame(outs) THEN "Footer: a non-output tensor changed"
          ELSE IF \E n \in outs : ~(Post[n].ranks = Post[n].init /\ Post[n].rank_ptr = 0 /\ Post[n].iter_ptr = 0 /\ Post[n].is_output) THEN "Footer: output not returned to its declared layout"
          ELSE IF Ev.defs # <<>> /\ \E n \in outs : Ev.defs[Len(Ev.defs)] # Name(n, Post[n]) THEN "Footer: result not bound to the declared output name"
          ELSE "ok")
    [] OTHER -> (IF ~Frame({}) THEN "observer node changed tensor state" ELSE "ok")
Init == tid \in 1..Len(Traces) /\ l = 1 /\ T = Traces[tid].events[1].tensors /\ tmp = 0
Next == /\ l <= Len(Trace) /\ Clause = "ok"
        /\ l' = l + 1 /\ T' = Post /\ tmp' = Ev.tmp /\ UNCHANGED tid
Spec == Init /\ [][Next]_vars
Verdict == (l <= Len(Trace) /\ Clause # "ok") => PrintT("TENSORIR|" \o ToString(tid) \o "|" \o ToString(l) \o "|" \o Ev.ev \o "|" \o Clause)
Accepted == (l > Len(Trace)) => PrintT("TENSORIROK|" \o ToString(tid))
=============================================================================
