--------------------------- MODULE MetricsProtocol ---------------------------
(* C12: the metrics-collection protocol as a monitor (DESIGN 3.6).  MpStep(m, instr, inLoop) is *)
(* the monitor state after the statement `instr` executes; it is advanced by HFMachine on a     *)
(* concrete run and by Scope on every path.  State:                                              *)
(*   phase in {idle, collecting, closed}; prefix; reg (rank, type, consumable) registrations;   *)
(*   files: trace files producible in this Einsum's section (registrations + filter outputs);   *)
(*   isect: intersector variable -> created | fed; bad: first complaint; sections: #begins.     *)
EXTENDS HFValues
MpInit == [phase |-> "idle", prefix |-> "", reg |-> {}, files |-> {}, isect |-> <<>>, bad |-> "", sections |-> 0, looped |-> FALSE]
RECURSIVE CallsIn(_)
CallsIn(e) ==
  CASE e.e = "call" -> {e} \cup CallsIn(e.fn) \cup UNION ({CallsIn(e.args[i]) : i \in 1..Len(e.args)} \cup {CallsIn(e.kw[i].v) : i \in 1..Len(e.kw)})
    [] e.e \in {"tuple", "list"} -> UNION {CallsIn(e.elts[i]) : i \in 1..Len(e.elts)}
    [] e.e = "dict" -> UNION ({CallsIn(e.keys[i]) : i \in 1..Len(e.keys)} \cup {CallsIn(e.vals[i]) : i \in 1..Len(e.vals)})
    [] e.e \in {"bin", "cmp"} -> CallsIn(e.l) \cup CallsIn(e.r)
    [] e.e = "attr" -> CallsIn(e.obj)
    [] e.e = "index" -> CallsIn(e.obj) \cup CallsIn(e.key)
    [] e.e = "lambda" -> CallsIn(e.body)
    [] OTHER -> {}
ExprsOf(i) == CASE i.op \in {"assign", "expr"} -> {i.e} [] i.op = "aug" -> {i.dst, i.e} [] i.op = "setitem" -> {i.obj, i.key, i.e}
                [] i.op = "for" -> {i.it} [] i.op = "if" -> {i.c} [] OTHER -> {}
CallsAt(ins) == UNION {CallsIn(x) : x \in ExprsOf(ins)}
MetCall(c, name) == c.fn.e = "attr" /\ c.fn.obj.e = "name" /\ c.fn.obj.id = "Metrics" /\ c.fn.name = name
Meth(c, name) == c.fn.e = "attr" /\ c.fn.name = name
Complain(m, msg) == IF m.bad = "" THEN [m EXCEPT !.bad = msg] ELSE m
MpStep(mp, I, InLoop, Strict) ==
  LET CallsAtI == CallsAt(I)
      begins == {c \in CallsAtI : MetCall(c, "beginCollect")}
      ends == {c \in CallsAtI : MetCall(c, "endCollect")}
      regs == {c \in CallsAtI : MetCall(c, "trace")}
      cons == {c \in CallsAtI : MetCall(c, "consumeTrace")}
      filt == {c \in CallsAtI : Meth(c, "filterTrace")}
      iters == {c \in CallsAtI : Meth(c, "numIters")}
      feeds == {c \in CallsAtI : Meth(c, "addTraces")}
      counts == {c \in CallsAtI : Meth(c, "getNumIntersects")}
      mkis == I.op = "assign" /\ I.e.e = "call" /\ I.e.fn.e = "name" /\ I.e.fn.id \in {"LeaderFollowerIntersector", "SkipAheadIntersector", "TwoFingerIntersector"}
      m1 == IF begins # {} THEN
               (LET c == CHOOSE x \in begins : TRUE
                    m0 == [mp EXCEPT !.phase = "collecting", !.prefix = c.args[1].s, !.reg = {}, !.files = {}, !.isect = <<>>, !.sections = @ + 1, !.looped = FALSE] IN
                IF mp.phase = "collecting" THEN Complain(m0, "beginCollect while collecting") ELSE IF InLoop THEN Complain(m0, "beginCollect inside a loop") ELSE m0)
            ELSE mp
      m2 == IF ends # {} THEN (IF m1.phase # "collecting" THEN Complain(m1, "endCollect without beginCollect") ELSE IF InLoop THEN Complain(m1, "endCollect inside a loop") ELSE [m1 EXCEPT !.phase = "closed"]) ELSE m1
      m3 == IF regs # {} THEN
               (LET new == {<<c.args[1].s, Kw(c, "type_").s, Kw(c, "consumable").b>> : c \in regs} IN
                LET m == [m2 EXCEPT !.reg = @ \cup new, !.files = @ \cup {m2.prefix \o "-" \o t[1] \o "-" \o t[2] \o ".csv" : t \in new}] IN
                IF m2.phase # "collecting" THEN Complain(m, "trace registration outside collection") ELSE m)
            ELSE m2
      m4 == IF \E c \in cons : <<c.args[1].s, c.args[2].s, TRUE>> \notin m3.reg THEN Complain(m3, "consumeTrace without consumable registration") ELSE m3
      m5 == IF mkis THEN (LET m == [m4 EXCEPT !.isect = Bind(@, I.dst, "created")] IN
                          IF InLoop \/ m4.phase # "collecting" THEN Complain(m, "intersector created inside loops or outside collection") ELSE m) ELSE m4
      m6 == IF feeds # {} THEN
               (LET c == CHOOSE x \in feeds : TRUE  nm == c.fn.obj.id IN
                IF nm \notin DOMAIN m5.isect THEN Complain(m5, "addTraces on an intersector that was not created")
                \* the feed is emitted at the close of the intersected rank's loop: inside the enclosing loops, or right after the
                \* nest when that rank is outermost -- in any case during collection and not before the loop nest has started
                ELSE IF m5.phase # "collecting" THEN Complain(m5, "addTraces outside the collection section")
                ELSE IF ~(InLoop \/ m5.looped) THEN Complain(m5, "addTraces before the loop nest")
                ELSE [m5 EXCEPT !.isect = Bind(@, nm, "fed")])
            ELSE m5
      m7 == IF \E c \in counts : ~(c.fn.obj.id \in DOMAIN m6.isect /\ m6.isect[c.fn.obj.id] \in {"created", "fed"}) THEN Complain(m6, "getNumIntersects on an intersector never created")
            \* Strict (all-paths machine, on the path that entered every loop): the intersector must have been fed inside the loops
            ELSE IF Strict /\ \E c \in counts : m6.isect[c.fn.obj.id] # "fed" THEN Complain(m6, "getNumIntersects on an intersector that is never fed inside the loops")
            ELSE m6
      m8 == IF filt # {} THEN
               (LET c == CHOOSE x \in filt : TRUE IN
                LET m == [m7 EXCEPT !.files = @ \cup {c.args[3].s}] IN
                IF c.args[1].s \notin m7.files \/ c.args[2].s \notin m7.files THEN Complain(m, "filterTrace input was never produced") ELSE m)
            ELSE m7
      m9 == IF \E c \in iters : c.args[1].s \notin m8.files THEN Complain(m8, "numIters on a trace that was never produced") ELSE m8
      m10 == IF I.op = "assign" /\ I.dst = "traces" /\ I.e.e = "dict" /\ \E j \in 1..Len(I.e.vals) : I.e.vals[j].s \notin m9.files
             THEN Complain(m9, "traces dictionary names a file that was never produced") ELSE m9
      m11 == IF I.op = "for" THEN [m10 EXCEPT !.looped = TRUE] ELSE m10
  IN m11
=============================================================================
