------------------------------- MODULE Defaults ------------------------------
(* C19 verdicts: for every specification of SpecSpace.tla the compiler's output with the mapping *)
(* section(s) omitted must be the text it emits when the default -- computed by                 *)
(* SpecSpace!DefaultLoopOrder / the declaration -- is written out explicitly.  The harness      *)
(* records, per specification, the digest of the text (or the exception) of each variant.        *)
EXTENDS Naturals, Sequences, TLC, Json, IOUtils
Recs == JsonDeserialize(IOEnv.DEFAULTS_BATCH).recs
VARIABLE r
Init == r \in 1..Len(Recs)
Next == UNCHANGED r
Spec == Init /\ [][Next]_r
R == Recs[r]
\* variants[i] = [what, out]; variant 1 is the one with everything omitted
Differs == {i \in 2..Len(R.variants) : R.variants[i].out # R.variants[1].out}
SameAsOmitted == Differs = {}
Verdict == ~SameAsOmitted => PrintT("DEFAULTS|" \o ToString(r) \o "|" \o R.variants[CHOOSE i \in Differs : TRUE].what)
=============================================================================
