------------------------------- MODULE Session ------------------------------
(* Compile sessions (property C15): within one interpreter, specifications are parsed into      *)
(* object sets (Einsum, Mapping, Architecture, Bindings, Format) and compiled, in any order,    *)
(* from fresh or from previously used objects.  The design: a parse of s always yields the same *)
(* observable objects D(s); Compile is a function of the specification alone -- it returns T(s) *)
(* and leaves the objects it was given as they were.  Behaviours of this module are the         *)
(* histories replayed into the implementation; SessionTrace.tla checks the recorded events.     *)
EXTENDS Naturals, Sequences, FiniteSets
CONSTANTS Specs, MaxLen
VARIABLES handle,    \* spec -> id of the object set currently held for it (0 = none)
          nobj,      \* number of object sets created so far
          digestOf,  \* object-set id -> [spec, state]   (state "pristine" is D(spec))
          out,       \* spec -> set of results observed for it
          hist       \* the actions taken: [act |-> "parse"|"compile", spec]
vars == <<handle, nobj, digestOf, out, hist>>
Init == /\ handle = [s \in Specs |-> 0] /\ nobj = 0 /\ digestOf = <<>> /\ out = [s \in Specs |-> {}] /\ hist = <<>>
Parse(s) == /\ nobj' = nobj + 1 /\ handle' = [handle EXCEPT ![s] = nobj + 1]
            /\ digestOf' = Append(digestOf, [spec |-> s, state |-> "pristine"])
            /\ hist' = Append(hist, [act |-> "parse", spec |-> s]) /\ UNCHANGED out
Compile(s) == /\ handle[s] # 0
              /\ out' = [out EXCEPT ![s] = @ \cup {"T"}]        \* the one text of s
              /\ hist' = Append(hist, [act |-> "compile", spec |-> s])
              /\ UNCHANGED <<handle, nobj, digestOf>>              \* the objects are left as they were
Next == Len(hist) < MaxLen /\ \E s \in Specs : Parse(s) \/ Compile(s)
Spec == Init /\ [][Next]_vars
NoMutation == \A o \in 1..Len(digestOf) : digestOf[o].state = "pristine"
Repeatable == \A s \in Specs : Cardinality(out[s]) <= 1
=============================================================================
